"""Deterministic cooperative runtime standing in for `asyncio` inside the frontend modules (DESIGN 2.3).

Only what the repository uses: Lock, create_task, sleep, Future (+ add_done_callback), wait_for,
get_running_loop().create_future().  A task runs until its next await on an unfinished future; WHICH ready
task runs next and WHEN a sleep expires is decided by the harness (symbolic choice), which is what turns
"every interleaving of the bounded scripts" into solver variables.
"""


class CancelledError(Exception):
    pass


class TimeoutError_(Exception):
    pass


class Future:
    def __init__(self):
        self.done_ = False
        self.res = None
        self.exc = None
        self.waiters = []
        self.callbacks = []

    def set_result(self, v=None):
        if self.done_:
            raise RuntimeError("invalid state: result already set")
        self.done_ = True
        self.res = v
        for t in self.waiters:
            RT.ready.append(t)
        self.waiters = []
        for cb in self.callbacks:
            RT.call_soon.append((cb, self))
        self.callbacks = []

    def set_exception(self, e):
        self.done_ = True
        self.exc = e
        for t in self.waiters:
            RT.ready.append(t)
        self.waiters = []

    def add_done_callback(self, cb):
        if self.done_:
            RT.call_soon.append((cb, self))
        else:
            self.callbacks.append(cb)

    def done(self):
        return self.done_

    def result(self):
        if self.exc is not None:
            raise self.exc
        return self.res

    def __await__(self):
        if not self.done_:
            yield self
        if self.exc is not None:
            raise self.exc
        return self.res


class Task(Future):
    def __init__(self, coro, name=""):
        Future.__init__(self)
        self.coro = coro
        self.name = name
        self.error = None

    def step(self):
        try:
            w = self.coro.send(None)
        except StopIteration as e:
            self.done_ = True
            self.res = e.value
            self._wake()
            return
        except Exception as e:          # an exception ends the task (like an unhandled task exception)
            self.error = e
            self.done_ = True
            self.exc = e
            self._wake()
            return
        if isinstance(w, Future):
            if w.done_:
                RT.ready.append(self)
            else:
                w.waiters.append(self)
        else:
            RT.ready.append(self)

    def _wake(self):
        for t in self.waiters:
            RT.ready.append(t)
        self.waiters = []
        for cb in self.callbacks:
            RT.call_soon.append((cb, self))
        self.callbacks = []


class Lock:
    def __init__(self):
        self.locked_ = False
        self.q = []

    def locked(self):
        return self.locked_

    async def acquire(self):
        while self.locked_:
            f = Future()
            self.q.append(f)
            await f
        self.locked_ = True
        return True

    def release(self):
        self.locked_ = False
        if self.q:
            self.q.pop(0).set_result()

    async def __aenter__(self):
        await self.acquire()

    async def __aexit__(self, *a):
        self.release()


class _Loop:
    def create_future(self):
        return Future()


class Runtime:
    def __init__(self):
        self.ready = []
        self.sleeps = []      # futures of pending asyncio.sleep calls, in call order
        self.tasks = []
        self.call_soon = []

    def create_task(self, coro):
        t = Task(coro)
        self.tasks.append(t)
        self.ready.append(t)
        return t

    def sleep(self, d):
        f = Future()
        self.sleeps.append(f)
        return f

    def _callbacks(self):
        while self.call_soon:
            cb, fut = self.call_soon.pop(0)
            cb(fut)

    def run_until_idle(self, choose=None):
        """runs ready tasks until none is left; `choose(n)` picks the index of the next one (default FIFO)"""
        n = 0
        self._callbacks()
        while self.ready:
            i = choose(len(self.ready)) if (choose and len(self.ready) > 1) else 0
            t = self.ready.pop(i)
            if not t.done_:
                t.step()
            self._callbacks()
            n += 1
            if n > 20000:
                raise RuntimeError("runtime did not become idle")

    def pending_sleeps(self):
        return [f for f in self.sleeps if not f.done_]


RT = Runtime()


def reset():
    global RT
    RT = Runtime()
    return RT


class AsyncioShim:
    """bound as the name `asyncio` in the frontend modules"""
    Lock = Lock
    Future = Future
    Task = Task
    CancelledError = CancelledError
    TimeoutError = TimeoutError_

    @staticmethod
    def create_task(coro):
        return RT.create_task(coro)

    @staticmethod
    def sleep(d):
        return RT.sleep(d)

    @staticmethod
    def get_running_loop():
        return _Loop()

    @staticmethod
    def get_event_loop():
        return _Loop()

    @staticmethod
    async def wait_for(fut, timeout):
        return await fut


class FakeWS:
    """fake websocket (server or client side): inbox fed by the harness / by the peer, `sent` recorder"""

    def __init__(self, name=""):
        self.name = name
        self.inbox = []
        self.sent = []
        self.closed = Future()
        self.waiter = None
        self.peer = None          # optional: a callable receiving every sent frame
        self.iterating = False    # the server has started to serve this connection (async for ... in websocket)

    def __aiter__(self):
        self.iterating = True
        return self

    async def __anext__(self):
        while not self.inbox:
            if self.closed.done_:
                raise StopAsyncIteration
            self.waiter = Future()
            await self.waiter
        return self.inbox.pop(0)

    async def recv(self):
        while not self.inbox:
            if self.closed.done_:
                raise ConnectionError("closed")
            self.waiter = Future()
            await self.waiter
        return self.inbox.pop(0)

    def feed(self, m):
        self.inbox.append(m)
        if self.waiter is not None and not self.waiter.done_:
            self.waiter.set_result()

    def close_now(self):
        if not self.closed.done_:
            self.closed.set_result()
        if self.waiter is not None and not self.waiter.done_:
            self.waiter.set_result()

    async def close(self):
        self.close_now()

    async def send(self, data):
        self.sent.append(data)
        if self.peer is not None:
            self.peer(data)

    async def wait_closed(self):
        await self.closed
