"""In-memory file-system model for the frontend file managers (DESIGN 2.3).

Both frontend/{server,client}/services/file_manager.py do all their I/O through three names of their own
module namespace: `_PROGRAM_PATH` (a pathlib.Path), `open` and `shutil`.  install() rebinds exactly those, so
the repository's file-manager functions, the Service classes and everything above them run unmodified.

Semantics (POSIX, as far as the six operations used need it):
  mkdir            FileExistsError / FileNotFoundError (unless exist_ok / parents)
  open(p, 'w'|'wb') truncates/creates at once; written data sit in a buffer and reach the file at close()
                   (or when the buffer passes 8 KiB, like io.BufferedWriter) - a process killed before close
                   leaves the file EMPTY/partial, which is what the crash-point checks (C13) rely on
  read_text/read_bytes/exists/unlink/rmtree
Every mutating operation first calls fs.hook(index, kind, path, 'before') and afterwards (..., 'after');
the hook may raise Crash to cut execution at that point.
"""
import io


class Crash(BaseException):
    """the process dies here (BaseException on purpose: `except Exception` in the code under test must not
    swallow a kill)"""


class MemFS:
    def __init__(self):
        self.dirs = {"/"}
        self.files = {}
        self.nops = 0
        self.hook = None
        self.log = []

    # ---- bookkeeping
    def _op(self, kind, path, when):
        if when == "before":
            self.nops += 1
            self.log.append((self.nops, kind, path))
        if self.hook is not None:
            self.hook(self.nops, kind, path, when)

    def snapshot(self):
        return (frozenset(self.dirs), tuple(sorted(self.files.items())))

    def clone(self):
        f = MemFS()
        f.dirs = set(self.dirs)
        f.files = dict(self.files)
        return f

    # ---- operations
    def exists(self, p):
        return p in self.dirs or p in self.files

    def mkdir(self, p, exist_ok=False, parents=False):
        self._op("mkdir", p, "before")
        if self.exists(p):
            if not (exist_ok and p in self.dirs):
                raise FileExistsError(p)
        else:
            parent = p.rsplit("/", 1)[0] or "/"
            if parent not in self.dirs:
                if not parents:
                    raise FileNotFoundError(parent)
                self.mkdir_quiet(parent)
            self.dirs.add(p)
        self._op("mkdir", p, "after")

    def mkdir_quiet(self, p):
        parts = [x for x in p.split("/") if x]
        cur = ""
        for x in parts:
            cur += "/" + x
            self.dirs.add(cur)

    def open(self, p, mode="r", *a, **kw):
        p = str(p)
        if "w" in mode:
            parent = p.rsplit("/", 1)[0] or "/"
            self._op("open-w", p, "before")
            if parent not in self.dirs:
                raise FileNotFoundError(p)
            if p in self.dirs:
                raise IsADirectoryError(p)
            self.files[p] = b""
            self._op("open-w", p, "after")
            return _WFile(self, p, "b" in mode)
        if p not in self.files:
            raise FileNotFoundError(p)
        data = self.files[p]
        return io.BytesIO(data) if "b" in mode else io.StringIO(data.decode("utf8"))

    def read_bytes(self, p):
        if p not in self.files:
            raise FileNotFoundError(p)
        return self.files[p]

    def unlink(self, p, missing_ok=False):
        self._op("unlink", p, "before")
        if p not in self.files:
            if not missing_ok:
                raise FileNotFoundError(p)
        else:
            del self.files[p]
        self._op("unlink", p, "after")

    def replace(self, src, dst):
        """os.replace: atomic rename over an existing file"""
        src, dst = str(src), str(dst)
        self._op("replace", dst, "before")
        if src not in self.files:
            raise FileNotFoundError(src)
        self.files[dst] = self.files.pop(src)
        self._op("replace", dst, "after")

    def rmtree(self, p):
        self._op("rmtree", p, "before")
        if p not in self.dirs:
            raise FileNotFoundError(p)
        for d in [d for d in self.dirs if d == p or d.startswith(p + "/")]:
            self.dirs.discard(d)
        for f in [f for f in self.files if f.startswith(p + "/")]:
            del self.files[f]
        self._op("rmtree", p, "after")


class _WFile:
    def __init__(self, fs, p, binary):
        self.fs, self.p, self.binary = fs, p, binary
        self.buf = b""
        self.closed = False

    def write(self, data):
        if self.closed:
            raise ValueError("I/O operation on closed file.")
        if not self.binary:
            data = data.encode("utf8")
        self.buf += bytes(data)
        if len(self.buf) >= 8192:
            # the buffer spills to the file: only now does a write change what a crash would leave behind
            self.fs._op("write-flush", self.p, "before")
            self.fs.files[self.p] = self.fs.files.get(self.p, b"") + self.buf
            self.buf = b""
            self.fs._op("write-flush", self.p, "after")
        return len(data)

    def flush(self):
        self.fs.files[self.p] = self.fs.files.get(self.p, b"") + self.buf
        self.buf = b""

    def close(self):
        if self.closed:
            return
        self.fs._op("close", self.p, "before")
        self.flush()
        self.closed = True
        self.fs._op("close", self.p, "after")

    def __enter__(self):
        return self

    def __exit__(self, et, ev, tb):
        if et is not None and issubclass(et, Crash):
            return False          # killed: buffered data are lost, nothing is flushed
        self.close()
        return False


class FakePath:
    """the subset of pathlib.Path the file managers use, over a MemFS"""

    def __init__(self, fs, p):
        self.fs, self.p = fs, p.rstrip("/") or "/"

    def joinpath(self, *parts):
        p = self.p
        for x in parts:
            p = p.rstrip("/") + "/" + str(x).strip("/")
        return FakePath(self.fs, p)

    def __truediv__(self, x):
        return self.joinpath(x)

    def exists(self):
        return self.fs.exists(self.p)

    def mkdir(self, mode=0o777, parents=False, exist_ok=False):
        self.fs.mkdir(self.p, exist_ok=exist_ok, parents=parents)

    def read_text(self, encoding="utf8"):
        return self.fs.read_bytes(self.p).decode(encoding)

    def read_bytes(self):
        return self.fs.read_bytes(self.p)

    def unlink(self, missing_ok=False):
        self.fs.unlink(self.p, missing_ok=missing_ok)

    def __str__(self):
        return self.p

    def __fspath__(self):
        return self.p

    def __repr__(self):
        return "FakePath(%r)" % self.p


class _Os:
    """the subset of `os` a file manager may use for atomic replacement"""

    def __init__(self, fs):
        self.fs = fs
        import os as _os
        self.path = _os.path
        self.fspath = _os.fspath

    def replace(self, src, dst):
        self.fs.replace(src, dst)

    rename = replace

    def unlink(self, p):
        self.fs.unlink(str(p))

    remove = unlink


class _Shutil:
    def __init__(self, fs):
        self.fs = fs

    def rmtree(self, p, ignore_errors=False):
        try:
            self.fs.rmtree(str(p))
        except FileNotFoundError:
            if not ignore_errors:
                raise


def install(fs, server_fm=None, client_fm=None):
    """rebinds `_PROGRAM_PATH`, `open`, `shutil` inside the given file-manager modules"""
    if server_fm is not None:
        fs.mkdir_quiet("/home/.sse")
        server_fm._PROGRAM_PATH = FakePath(fs, "/home/.sse")
        server_fm.open = fs.open
        server_fm.shutil = _Shutil(fs)
        if hasattr(server_fm, "os"):
            server_fm.os = _Os(fs)
    if client_fm is not None:
        fs.mkdir_quiet("/home/.sse/client")
        client_fm._PROGRAM_PATH = FakePath(fs, "/home/.sse/client")
        client_fm.open = fs.open
        client_fm.shutil = _Shutil(fs)
        if hasattr(client_fm, "os"):
            client_fm.os = _Os(fs)
