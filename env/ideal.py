"""Ideal-primitive environment (DESIGN 2.3).  Bound from the harness side into the module namespaces the
repository looks names up in; the repository's own wrappers (HmacPRF/_tls_p_hash, AESxCBC with its length
contracts and IV handling, the hash wrapper, BitwiseFPEPRP's length checks, all schemes) run for real.

  hmac.new / hashlib.new   lazy random oracle (same (alg, key, msg) -> same output, else fresh coins)
  cryptography Cipher      ideal cipher in CBC mode: each block a lazily sampled random function of (key, chaining
                           value, plaintext block), so equal (key, IV, plaintext) give equal ciphertexts;
                           decryption of an unknown triple raises ValueError (what PKCS7 unpadding of garbage does
                           with probability 255/256); AES(key) enforces the 16/24/32 key-size contract
  PKCS7 padder             pure Python, works on symbolic bytes
  os.urandom               coin source, each call distinct and logged
  random                   deterministic LCG (rng.LCG)
  BitwiseFFX               lazy random permutation per (key, width)
Coins are a deterministic function of a counter, so runs are repeatable and labels are concrete (hashable).
"""
import hashlib as _hl

_DIGEST_SIZE = {"sha1": 20, "sha224": 28, "sha256": 32, "sha384": 48, "sha512": 64, "md5": 16,
                "sha3_256": 32, "blake2b": 64, "blake2s": 32, "sha3_512": 64, "sha3_224": 28, "sha3_384": 48}


def _coins(tag, n):
    out = b""
    i = 0
    while len(out) < n:
        out += _hl.sha256(b"%s-%d" % (tag, i)).digest()
        i += 1
    return out[:n]


class World:
    def __init__(self, seed=0):
        self.seed = seed
        self.ctr = 0
        self.hmac_q = []      # (alg, key, msg, out)
        self.hmac_idx = {}    # exact index of the fully concrete queries: (alg, key, msg) -> out
        self.hmac_sym = []    # the queries with a symbolic key or message (a concrete query may equal one of them)
        self.hash_q = []      # (alg, msg, out)
        self.enc = []         # (key, iv, ct, padded_plaintext)
        self.blk = {}         # CBC block oracle: chaining value (concrete) -> [(key, plaintext block, output block)]
        self.blk_sym = []     # (chaining value, key, plaintext block, output block) with a symbolic chaining value
        self.blk_out = {}     # output block -> (key, chaining value, plaintext block)
        self.urandom_log = []  # values handed out by os.urandom, in order
        self.enc_calls = []   # (key, iv) per encryptor
        self.prp = {}         # (key, width) -> {x: y}
        self.prp_inv = {}

    def fresh(self, n, what=b"c"):
        self.ctr += 1
        return _coins(b"%s%d-%d" % (what, self.seed, self.ctr), n)


W = World()


def reset(seed=0):
    global W
    W = World(seed)
    return W


try:
    from crosshair import tracers as _tr
except ImportError:             # native runs without CrossHair installed
    _tr = None


def _real_bytes(x):
    """True iff x is an ordinary (concrete) bytes object - decided outside CrossHair's tracer, which makes
    symbolic byte strings claim the type bytes"""
    if _tr is not None and _tr.is_tracing():
        with _tr.NoTracing():
            return type(x) is bytes
    return type(x) is bytes


def _eq(a, b):
    """equality that may be symbolic (forks through the solver when it is)"""
    if len(a) != len(b):
        return False
    return a == b


def _hmac_key(key, name):
    """RFC 2104 key preparation, which is part of HMAC's contract: a key longer than the block is replaced by
    its hash, and every key is zero-padded to the block size - so k and k || 00 are THE SAME HMAC key"""
    block = 128 if name in ("sha512", "sha384") else 64
    if len(key) > block:
        key = _Hash(name, key).digest() if name in _DIGEST_SIZE else key
    return key + b"\x00" * (block - len(key))


class _H:
    def __init__(self, key, msg, name):
        if name not in _DIGEST_SIZE:
            raise ValueError("unsupported hash type " + str(name))
        self.key, self.msg, self.name = _hmac_key(key, name), msg, name
        self.digest_size = _DIGEST_SIZE[name]
        self.block_size = 128 if name in ("sha512", "sha384") else 64

    def update(self, m):
        self.msg = self.msg + m

    def copy(self):
        return _H(self.key, self.msg, self.name)

    def digest(self):
        # same oracle as a linear scan over hmac_q, without the quadratic cost on large concrete databases: two
        # concrete queries are equal iff they are the same dictionary key; only queries with a symbolic part need
        # the solver
        concrete = _real_bytes(self.key) and _real_bytes(self.msg)
        if concrete:
            hit = W.hmac_idx.get((self.name, self.key, self.msg))
            if hit is not None:
                return hit
            scan = W.hmac_sym
        else:
            scan = W.hmac_q
        for (nm, k, m, out) in scan:
            if nm == self.name and _eq(k, self.key) and _eq(m, self.msg):
                return out
        out = W.fresh(self.digest_size, b"h")
        W.hmac_q.append((self.name, self.key, self.msg, out))
        if concrete:
            W.hmac_idx[(self.name, self.key, self.msg)] = out
        else:
            W.hmac_sym.append((self.name, self.key, self.msg, out))
        return out

    def hexdigest(self):
        return self.digest().hex()


def _dname(digestmod):
    if isinstance(digestmod, str):
        return digestmod.lower()
    if callable(digestmod):
        return digestmod().name
    return digestmod.name


class HmacShim:
    @staticmethod
    def new(key, msg=None, digestmod=None):
        if digestmod is None:
            raise TypeError("Missing required argument 'digestmod'.")
        return _H(key, b"" if msg is None else msg, _dname(digestmod))

    @staticmethod
    def compare_digest(a, b):
        return a == b


class _Hash:
    def __init__(self, name, data=b""):
        name = name.lower()
        if name in ("shake_128", "shake_256"):
            self.digest_size = 0
        elif name in _DIGEST_SIZE:
            self.digest_size = _DIGEST_SIZE[name]
        else:
            raise ValueError("unsupported hash type " + name)
        self.name, self.msg = name, data
        self.block_size = 128 if name in ("sha512", "sha384") else 64

    def update(self, m):
        self.msg = self.msg + m

    def copy(self):
        return _Hash(self.name, self.msg)

    def digest(self, length=None):
        if self.digest_size == 0 and length is None:
            raise TypeError("digest() missing required argument 'length'")
        n = self.digest_size if self.digest_size else length
        idx = None
        for (nm, m, i) in W.hash_q:
            if nm == self.name and _eq(m, self.msg):
                idx = i
                break
        if idx is None:
            W.ctr += 1
            idx = W.ctr
            W.hash_q.append((self.name, self.msg, idx))
        # a fixed stream per (alg, msg): XOF outputs of different lengths are prefixes of each other
        return _coins(b"H%d-%d" % (W.seed, idx), n)

    def hexdigest(self, length=None):
        return self.digest(length).hex()


class HashlibShim:
    """stands in for the `hashlib` module inside toolkit.hash and toolkit.prf.hmac_prf"""
    algorithms_available = set(_DIGEST_SIZE) | {"shake_128", "shake_256"}
    algorithms_guaranteed = algorithms_available

    @staticmethod
    def new(name, data=b"", **kw):
        return _Hash(name, data)

    @staticmethod
    def sha1(data=b""):
        return _Hash("sha1", data)

    @staticmethod
    def sha256(data=b""):
        return _Hash("sha256", data)

    @staticmethod
    def sha512(data=b""):
        return _Hash("sha512", data)

    @staticmethod
    def md5(data=b""):
        return _Hash("md5", data)


# ---------------------------------------------------------------- ideal cipher
def _enc_block(key, prev, pb):
    """one block of the ideal cipher in CBC mode: a lazily sampled random function of (key, chaining value, plaintext
    block) - deterministic, so a repeated (key, IV) makes equal plaintext prefixes visible as equal ciphertext
    prefixes, exactly what CBC does"""
    if _real_bytes(prev):
        lst = W.blk.setdefault(prev, [])
        for (k, p, out) in lst:
            if _eq(k, key) and _eq(p, pb):
                return out
        for (pv, k, p, out) in W.blk_sym:
            if _eq(pv, prev) and _eq(k, key) and _eq(p, pb):
                return out
        out = W.fresh(16, b"e")
        lst.append((key, pb, out))
    else:
        for pv, lst in W.blk.items():
            for (k, p, out) in lst:
                if _eq(pv, prev) and _eq(k, key) and _eq(p, pb):
                    return out
        for (pv, k, p, out) in W.blk_sym:
            if _eq(pv, prev) and _eq(k, key) and _eq(p, pb):
                return out
        out = W.fresh(16, b"e")
        W.blk_sym.append((prev, key, pb, out))
    W.blk_out[out] = (key, prev, pb)
    return out


def _dec_block(key, prev, cb):
    """inverse of _enc_block; an output block nobody produced under (key, chaining value) decrypts to garbage, which
    the model turns into the unpadding failure it causes with probability 255/256"""
    if _real_bytes(cb):
        e = W.blk_out.get(cb)
        cands = [e] if e is not None else []
    else:
        cands = [e for out, e in W.blk_out.items() if _eq(out, cb)]
    for (k, pv, pb) in cands:
        if _eq(k, key) and _eq(pv, prev):
            return pb
    raise ValueError("Invalid padding bytes.")


class _Enc:
    def __init__(self, key, iv):
        self.key, self.iv = key, iv

    def update(self, data):
        if len(data) % 16:
            raise ValueError("The length of the provided data is not a multiple of the block length.")
        prev, ct = self.iv, b""
        for i in range(0, len(data), 16):
            prev = _enc_block(self.key, prev, data[i:i + 16])
            ct += prev
        W.enc.append((self.key, self.iv, ct, data))
        W.enc_calls.append((self.key, self.iv))
        return ct

    def finalize(self):
        return b""


class _Dec:
    def __init__(self, key, iv):
        self.key, self.iv = key, iv
        self.hit = None

    def update(self, ct):
        if len(ct) % 16:
            raise ValueError("The length of the provided data is not a multiple of the block length.")
        # whole messages first (the common case, and the one that keeps symbolic plaintexts in one piece)
        for (k, iv, c, p) in W.enc:
            if len(c) == len(ct) and c == ct and _eq(k, self.key) and _eq(iv, self.iv):
                return p
        prev, pt = self.iv, b""
        for i in range(0, len(ct), 16):
            cb = ct[i:i + 16]
            pt += _dec_block(self.key, prev, cb)
            prev = cb
        return pt

    def finalize(self):
        return b""


class CipherShim:
    def __init__(self, alg, mode, backend=None):
        self.key, self.iv = alg.key, mode.iv

    def encryptor(self):
        return _Enc(self.key, self.iv)

    def decryptor(self):
        return _Dec(self.key, self.iv)


class AlgorithmsShim:
    class AES:
        block_size = 128
        name = "AES"

        def __init__(self, key):
            if len(key) not in (16, 24, 32):
                raise ValueError("Invalid key size (%d) for AES." % (len(key) * 8))
            self.key = key


class ModesShim:
    class CBC:
        name = "CBC"

        def __init__(self, iv):
            if len(iv) != 16:
                raise ValueError("Invalid IV size (%d) for CBC." % len(iv))
            self.iv = iv


def pkcs7_pad(message, block_size):
    k = block_size // 8
    p = k - len(message) % k
    return message + bytes([p]) * p


def pkcs7_unpad(padded, block_size):
    k = block_size // 8
    if len(padded) == 0 or len(padded) % k:
        raise ValueError("Invalid padding bytes.")
    p = padded[-1]
    if p < 1 or p > k:
        raise ValueError("Invalid padding bytes.")
    if padded[-p:] != bytes([p]) * p:
        raise ValueError("Invalid padding bytes.")
    return padded[:-p]


class _Padder:
    def __init__(self, k):
        self.k, self.buf = k, b""

    def update(self, data):
        self.buf = self.buf + data
        return b""

    def finalize(self):
        p = self.k - len(self.buf) % self.k
        return self.buf + bytes([p]) * p


class _Unpadder:
    def __init__(self, k):
        self.k, self.buf = k, b""

    def update(self, data):
        self.buf = self.buf + data
        return b""

    def finalize(self):
        return pkcs7_unpad(self.buf, self.k * 8)


class PaddingShim:
    """stands in for cryptography.hazmat.primitives.padding inside toolkit.symmetric_padding, so that the
    repository's own pkcs7_pad / pkcs7_unpad run on symbolic bytes (exact PKCS7 semantics, RFC 5652 6.3)"""
    class PKCS7:
        def __init__(self, block_size):
            if not isinstance(block_size, int) or not (0 <= block_size <= 2040) or block_size % 8:
                raise ValueError("block_size must be in range(0, 2041) and a multiple of 8.")
            self.k = block_size // 8

        def padder(self):
            return _Padder(self.k)

        def unpadder(self):
            return _Unpadder(self.k)


class OsShim:
    """stands in for the `os` module where the repository only uses os.urandom"""
    @staticmethod
    def urandom(n):
        if not isinstance(n, int):
            raise TypeError("'%s' object cannot be interpreted as an integer" % type(n).__name__)
        if n < 0:
            raise ValueError("negative argument not allowed")
        v = W.fresh(n, b"u") if n else b""
        W.urandom_log.append(v)
        return v

    import os as _os
    path = _os.path


# ---------------------------------------------------------------- lazy random permutation for BitwiseFFX
class IdealFFX:
    """stands in for toolkit.symmetric_encryption.fpe.BitwiseFFX inside BitwiseFPEPRP (SSE-1/SSE-2 pipelines):
    an injective, width-preserving lazy permutation per (key, width). The FFX network itself is C15's subject."""

    def __init__(self, rounds=10, digest_mod=None):
        pass

    def encrypt(self, key, v):
        from toolkit.bits import Bitset
        n = len(v)
        x = v.value
        tab = W.prp.setdefault((bytes(key), n), [])      # list of (x, y): no hashing of symbolic inputs
        for (kx, ky) in tab:                               # symbolic x: compared with every earlier query
            if kx == x:
                return Bitset(ky, n)
        if len(tab) >= 2 ** n:
            raise AssertionError("permutation oracle exhausted")
        used = [ky for (_, ky) in tab]
        while True:
            y = int.from_bytes(W.fresh((n + 7) // 8 + 1, b"p"), "big") % (2 ** n)
            if y not in used:
                break
        tab.append((x, y))
        return Bitset(y, n)

    def decrypt(self, key, v):
        from toolkit.bits import Bitset
        n = len(v)
        y = v.value
        for (kx, ky) in W.prp.get((bytes(key), n), []):
            if ky == y:
                return Bitset(kx, n)
        raise AssertionError("decrypt of a value never produced")


class LCG:
    """deterministic stand-in for the `random` module (environment stub)"""

    def __init__(self, seed=1):
        self.s = seed

    def _next(self):
        self.s = (self.s * 6364136223846793005 + 1442695040888963407) % (1 << 64)
        return self.s >> 33

    def randbelow(self, n):
        return self._next() % n

    def randint(self, a, b):
        return a + self.randbelow(b - a + 1)

    def randrange(self, a, b=None):
        if b is None:
            a, b = 0, a
        return a + self.randbelow(b - a)

    def choice(self, seq):
        return seq[self.randbelow(len(seq))]

    def shuffle(self, x):
        for i in range(len(x) - 1, 0, -1):
            j = self.randbelow(i + 1)
            x[i], x[j] = x[j], x[i]

    def sample(self, pop, k):
        pool = list(pop)
        self.shuffle(pool)
        return pool[:k]

    def random(self):
        return self._next() / float(1 << 31)

    def seed(self, s):
        self.s = s

    def Random(self, seed=None):
        """a private generator object (random.Random(seed)): another deterministic LCG"""
        if isinstance(seed, (bytes, bytearray)):
            seed = int.from_bytes(bytes(seed), "big")
        return LCG((seed or 0) * 2 + 1)


_CONSTRUCTIONS = ["schemes.CGKO06.SSE1.construction", "schemes.CGKO06.SSE2.construction",
                  "schemes.CJJ14.PiBas.construction", "schemes.CJJ14.PiPack.construction",
                  "schemes.CJJ14.PiPtr.construction", "schemes.CJJ14.Pi2Lev.construction",
                  "schemes.CT14.Pi.construction", "schemes.ANSS16.Scheme3.construction",
                  "schemes.DP17.Pi.construction"]

_SAVED = {}


def uninstall_crypto():
    """back to the real HMAC / AES / padding / FFX (os.urandom and random stay stubbed): used where labels have
    to look random (C06 label order)"""
    import toolkit.prf.hmac_prf as hp
    import toolkit.symmetric_encryption.aes as aes
    import toolkit.hash as th
    import toolkit.prp.bitwise_fpe_prp as bfp
    import toolkit.symmetric_padding as sp
    from cryptography.hazmat.primitives import padding as _padding
    if _SAVED:
        hp.hmac = _SAVED["hmac"]
        hp.hashlib = _hl
        aes.Cipher, aes.algorithms, aes.modes = _SAVED["cipher"], _SAVED["algorithms"], _SAVED["modes"]
        th.hashlib = _SAVED["hashlib"]
        bfp.BitwiseFFX = _SAVED["ffx"]
        sp.padding = _padding


def install(ideal_ffx=True, lcg_seed=7):
    """binds the stubs; idempotent. Call reset() per path."""
    import importlib
    import toolkit.prf.hmac_prf as hp
    import toolkit.symmetric_encryption.aes as aes
    import toolkit.hash as th
    import toolkit.prp.bitwise_fpe_prp as bfp
    if not _SAVED:
        _SAVED.update(hmac=hp.hmac, cipher=aes.Cipher, algorithms=aes.algorithms, modes=aes.modes,
                      pad=aes.pkcs7_pad, unpad=aes.pkcs7_unpad, aes_os=aes.os, hashlib=th.hashlib, ffx=bfp.BitwiseFFX)
    hp.hmac = HmacShim
    hp.hashlib = HashlibShim
    aes.Cipher = CipherShim
    aes.algorithms = AlgorithmsShim
    aes.modes = ModesShim
    import toolkit.symmetric_padding as sp
    sp.padding = PaddingShim          # the repository's own pkcs7_pad / pkcs7_unpad stay in place
    aes.os = OsShim
    th.hashlib = HashlibShim
    if ideal_ffx:
        bfp.BitwiseFFX = IdealFFX
    rng = LCG(lcg_seed)
    for name in _CONSTRUCTIONS:
        m = importlib.import_module(name)
        if hasattr(m, "os"):
            m.os = OsShim
        if hasattr(m, "random"):
            m.random = rng
    return rng
