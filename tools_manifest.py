#!/usr/bin/env python3
"""regenerates MANIFEST.json from the table below (keeps it valid at all times)"""
import json, os
HERE = os.path.dirname(os.path.abspath(__file__))

_PIPE_NOTE = ("Trusted/assumed: ideal primitives bound from the harness side (lazy random oracle for HMAC/hash, ideal cipher whose "
              "wrong-key decryption fails, coin source for os.urandom, deterministic LCG for random, lazy random permutation for "
              "BitwiseFFX, equality-based set for DP17's result); CrossHair's bytes/int models plus the models in vf/sx_plugin.py; "
              "every counterexample is replayed with the real primitives before it is reported.")

CLAIMED = {
 "C01": dict(cat="other", tech="bounded symbolic execution of the real scheme pipeline (CrossHair/z3) under ideal primitives",
             text="KeyGen/EDBSetup/TokenGen/Search of all nine schemes run symbolically through the public API; per obligation the "
                  "configuration and list-length profile are concrete (every block/level/power-of-two boundary of small "
                  "configurations), every identifier byte is a solver variable, and Search == DB[w] is decided by z3 for all "
                  "identifier values; all path trees are exhausted. Bounded (N <= 17, small block parameters), not a proof.",
             note=_PIPE_NOTE, ref="3/C01"),
 "C02": dict(cat="other", tech="bounded symbolic execution (CrossHair/z3) with a symbolic searched keyword over lazy oracles",
             text="The searched keyword is a symbolic byte string (every keyword of length 1..3/4 without leading NUL that is not "
                  "stored); since PRF/PRP/hash are lazy oracles the solver covers all absent keywords on one path and decides the "
                  "near-miss paths separately; the result must be empty and no exception may escape.",
             note=_PIPE_NOTE, ref="3/C02"),
 "C17": dict(cat="other", tech="bounded symbolic execution of the real functions (CrossHair/z3), structure concrete, contents symbolic",
             text="Every obligation executes the repository's own byte/identifier-block helpers symbolically; within the stated "
                  "geometry bounds z3 decides the round-trip assertion for all byte contents and slice lengths of each path, and "
                  "every path tree is exhausted. Bounded, not a proof: larger geometries are outside the claim.",
             note="Trusted: CrossHair's models of bytes/int operations (each counterexample is replayed natively before it is "
                  "reported), z3. bytes.fromhex/hex/encode/decode are CPython builtins and treated as environment.",
             ref="3/C17"),
 "C19": dict(cat="model_checking", tech="one-step induction + depth-2 BMC by symbolic execution (CrossHair/z3) of the real array on real files",
             text="The array is a state machine over (contents, open chunk files, open/closed). One inductive step from every "
                  "pre-state in the bounded family, with the integer index unbounded and slice bounds symbolic, is executed "
                  "on the real code and compared with a list model; z3 decides every branch so each path stands for all "
                  "index values in its class; all path trees are exhausted. Depth-2 sequences cross-check reachability.",
             note="Trusted: CrossHair's int/range models plus the harness-side pure-Python models of operator.index and "
                  "slice.indices (validated against CPython on 19600 cases; vf/sx_plugin.py); POSIX semantics of the scratch "
                  "directory. Item contents are concrete (file I/O realises them).",
             ref="3/C19"),
 "C20": dict(cat="model_checking", tech="one-step induction + depth-2 BMC by symbolic execution (CrossHair/z3) of the real dictionaries on real files",
             text="One inductive step from every pre-state of a bounded family (3 keys x {absent, v1, v2}, five life-cycle "
                  "states) with solver-chosen key/value-kind, compared with a plain dict, including re-read after close+open; "
                  "every path tree is exhausted. Keys and values are concrete per path (hashing/pickling realise them), so "
                  "the solver's role here is to enumerate and prune the choice tree exhaustively - stated honestly as bounded "
                  "model checking of the operation state machine.",
             note="Trusted: CrossHair's dict/bytes models, pickle on realised data, the file system of the scratch directory. "
                  "DBMDict only within one open session (dbm.dumb backend). For sync() on a closed dictionary any exception "
                  "is accepted (the statement says 'raises'); the mapping operations must raise ValueError.",
             ref="3/C20"),
 "C07": dict(cat="model_checking", tech="one-step induction (+ depth-3 BMC) by symbolic execution of the real schemes (CrossHair/z3) under ideal primitives",
             text="Inputs-intact and search-purity are shown as one inductive step: deep snapshots of DB, configuration dict, every "
                  "scheme's shared DEFAULT_CONFIG and the serialized key equal the originals after SSEScheme()/EDBSetup; for a "
                  "solver-chosen keyword (stored or a symbolic absent one) EDB.serialize() and Token.serialize() are identical "
                  "before and after Search and the answer is the single-search answer. Post-state == pre-state gives every "
                  "finite history; depth-3 sequences cross-check it.",
             note=_PIPE_NOTE, ref="3/C07"),
 "C05": dict(cat="other", tech="bounded symbolic execution of the real EDBSetup (CrossHair/z3) with solver-enumerated length profiles",
             text="The list-length profile is a vector of solver variables; for every feasible profile in the bounded family the "
                  "shape of the real index (per container entry count and multiset of entry lengths) must equal the shape for the "
                  "representative profile with the same public size parameter, and padded tables must have one key length and one "
                  "value length. Lengths are what the ideal primitives preserve, so nothing is lost by the stubs here.",
             note=_PIPE_NOTE + " The ANSS16 level-overflow defect this check found is repaired in /repo (962b209); no finding is open.", ref="3/C05"),
 "C15": dict(cat="other", engine="bvx", tech="SMT (z3, QF_UFBV) over an encoding generated from the source by the BVX AST-to-SMT interpreter; HMAC uninterpreted",
             text="For each bit width the plaintext is a free bit-vector and the round function's HMAC is an uninterpreted function: "
                  "decrypt(encrypt(x)) == x, encrypt(decrypt(y)) == y and length preservation are unsat-checked for ALL inputs, "
                  "keys and round functions (two-sided inverse on a finite set = bijection). Luby-Rackoff byte PRPs: the inverse "
                  "network over the same uninterpreted PRF recovers every message; wrong lengths are refused.",
             note="Trusted: z3; the BVX interpreter (validated per obligation by running every call concretely through the "
                  "interpreter and natively on random inputs; every sat model is replayed natively; thorough tier re-decides "
                  "small widths with the /usr/bin/z3 4.8.12 binary). Bit-vector width W = max(2n, n+170)+16.", ref="3/C15"),
 "C18": dict(cat="other", engine="bvx", tech="SMT (z3, QF_BV) over an encoding generated from the source of toolkit.bits by the BVX AST-to-SMT interpreter",
             text="One query per (operation, length pair) with free operand values: each unsat answer covers all operand values of "
                  "those lengths against an MSB-first list-of-bits reference written as bit-vector terms. Construction without a "
                  "length is checked by running the real constructor on the stated finite family 2^k+d (k<=300) and all values "
                  "< 2^10, because that is where a float logarithm could go wrong and no solver theory models it.",
             note="Trusted: z3; the BVX interpreter (self-validated per obligation on random concrete inputs against native "
                  "execution; sat models replayed natively); W = 2(la+lb)+24 bits.", ref="3/C18"),
 "C03": dict(cat="other", tech="bounded symbolic execution (CrossHair/z3) of the real (de)serialisers with symbolic field contents + split client/server pipeline",
             text="Every fixed-offset key/token wire format is exercised with SYMBOLIC field contents of exactly the lengths the scheme "
                  "produces under a grid of configurations whose widths differ from each other, so a wrong split offset cannot hide "
                  "behind coincidence; the split pipeline gives the server only JSON config + serialized index + serialized token "
                  "and the client a key reloaded from bytes in a fresh instance, for a solver-chosen present/absent keyword.",
             note=_PIPE_NOTE + " Pickle-based formats (EDBs, results, DP17/SSE-2 tokens) are exercised on concrete contents only.",
             ref="3/C03"),
 "C14": dict(cat="other", tech="bounded symbolic execution (CrossHair/z3) of the real AESxCBC wrapper and PKCS7 helpers relative to an axiomatised AES-CBC",
             text="Message and key bytes are solver variables at every message length of the bound and declared lengths are unbounded "
                  "symbolic ints: round trip, exact expansion 16+16*(n//16+1), one fresh os.urandom(16) per Encrypt placed as the "
                  "ciphertext prefix, the padded message/key/IV handed to the cipher, ValueError exactly on contract violations, and "
                  "strict PKCS7 unpadding (accepts exactly the valid paddings) - the plumbing that makes wrong-key decryption fail.",
             note="Assumed: AES-CBC is an ideal cipher (bit patterns outside the claim; 'a different key never returns m' only as "
                  "plumbing + strict unpadding); cryptography's padding module replaced by a pure-Python PKCS7 object model so that "
                  "toolkit.symmetric_padding itself runs symbolically.", ref="3/C14"),
 "C16": dict(cat="other", tech="bounded symbolic execution (CrossHair/z3) against an RFC 5246 reference over a shared lazy random oracle",
             text="HmacPRF/_tls_p_hash and the variable-length hash wrapper run for real over an oracle standing in for hmac/hashlib; "
                  "the result is compared with a reference P_hash / counter-mode / XOF written from the RFC over the same oracle for "
                  "symbolic keys and messages and the whole range of output lengths; plus exact length, determinism, "
                  "distinct-in => distinct-out and the declared-length contracts with unbounded symbolic declared lengths.",
             note="Assumed: HMAC and the hashes are deterministic collision-free functions of (algorithm, key, message); their bit "
                  "patterns are outside the claim (the native replay uses the real ones).", ref="3/C16"),
 "C08": dict(cat="other", tech="bounded symbolic execution (CrossHair/z3) of the full chain SSEConfig..Search over solver-chosen configuration values",
             text="For every scheme every single numeric field and every pair of length fields the schemes tie together take "
                  "solver-chosen values from the property's grid (valid, boundary, 0, -1, non-integer), every primitive name is "
                  "varied and every field is deleted; on every path either an exception left the chain or all searches (stored "
                  "and absent keyword) are correct, and a missing required parameter raises inside SSEConfig.",
             note=_PIPE_NOTE + " Databases are built to be valid for each configuration (identifier size, keyword-length limit, "
                  "SSE-1 capacity N+1 < s, SSE-2 file count).", ref="3/C08"),
 "C10": dict(cat="model_checking", tech="one-step induction + depth-3/4 BMC by symbolic execution (CrossHair/z3) of the real server Service and dispatcher over a file-system model",
             text="From every reachable persistent state (state x accepted configuration x accepted index x clean/abrupt end of "
                  "the previous connection) one solver-chosen protocol message (type incl. unknown/missing, sid incl. "
                  "foreign/missing, payload) goes through the real _recv_message; replies, the error that ends the dispatcher, "
                  "every file and the state told to the next connection must match the 3-state reference model; searches must be "
                  "answered from the accepted index with the token digest echoed. Event sequences cross-check reachability.",
             note="Trusted: env/memfs.py (POSIX semantics of the six file operations used), env/aio.py cooperative runtime, fake "
                  "websocket; real PiBas + real HMAC/AES on concrete fixtures. The websockets library is outside.", ref="3/C10"),
 "C11": dict(cat="model_checking", tech="one-step induction by symbolic execution (CrossHair/z3) of the real client Service against the real server over an in-memory transport; flag helpers by SMT (BVX)",
             text="From each of nine reachable workflow prefixes (every operation run by a client object freshly loaded from the "
                  "file-system model) one solver-chosen operation is invoked against the real server classes; acceptance, the five "
                  "persisted flags, the bytes of every client file (the key in particular), creation with invalid configurations, "
                  "and - after completing the workflow - the delivered search results must match the reference model. The flag "
                  "helpers are proved independent for all 64-bit state words by BVX.",
             note="Trusted: env/memfs.py, env/aio.py, in-memory websocket pair wired to frontend.server.connector.handler (closes "
                  "the connection when the handler ends, as the websockets library does).", ref="3/C11"),
 "C12": dict(cat="model_checking", tech="bounded schedule exploration by symbolic execution (CrossHair/z3) of the real ServicesManager on a cooperative runtime",
             text="The next external event (open / next scripted request / close of a connection, expiry of a cleanup delay) is a "
                  "solver-chosen index into the enabled set, so every interleaving of the bounded scripts (2 connections x <= 2 "
                  "requests, 3 connections x <= 1 request) is one path through the real create_service / "
                  "clean_service_when_close_connection / Service code; each path checks mutual exclusion of served connections, "
                  "no roll-back of acknowledged state (probe connection after quiescence) and that an acknowledged index is the "
                  "one searched. All path trees are exhausted.",
             note="The two defects this check found (stale snapshot written back; two waiters released together) are repaired in "
                  "/repo (e1bc986); no finding is open and no schedule is exempt. Every connection enters through "
                  "frontend.server.connector.handler. Trusted: "
                  "env/aio.py (run-to-next-await, FIFO lock wake-up), env/memfs.py, fake websockets.", ref="3/C12"),
 "C13": dict(cat="fault_enumeration", tech="bounded crash-point exploration by symbolic execution (CrossHair/z3) over a file-system model with kill semantics",
             text="The interrupted workflow step and the crash point (every state-changing file operation of the client and of the "
                  "server during that step, before and after it) are solver variables; the kill drops user-space buffers and every "
                  "in-memory object; fresh services over the same files must accept the handshake, and the rest of the workflow "
                  "(re-create if creation never returned, retry the interrupted step when the state asks for it) must end in "
                  "correct searches.",
             note="Trusted: env/memfs.py kill semantics (buffer lost before close, rename atomic), env/aio.py. Index below the "
                  "8 KiB buffer size; partial flushes of a large index are outside.", ref="3/C13"),
 "C04": dict(cat="other", tech="non-interference (2-safety) by bounded symbolic execution (CrossHair/z3) of the real setup/token code under ideal primitives",
             text="Two databases of the same shape with independent symbolic identifier bytes and different keywords are set up with "
                  "the same coin stream and the resulting index and serialized tokens must be equal, so any leaf that depends on an "
                  "identifier or keyword is found by z3; the same database under two keys on one continuing oracle may not repeat a "
                  "label or token field (labels are keyed); and from the coin log every encryption used its own fresh "
                  "os.urandom(16) as IV = ciphertext prefix, disjoint between two setups. Each counterexample is confirmed by the "
                  "property's literal byte-substring statement with the real primitives.",
             note=_PIPE_NOTE + " Secrecy of AES/HMAC themselves is outside.", ref="3/C04"),
 "C06": dict(cat="other", tech="bounded symbolic execution (CrossHair/z3): solver-chosen keyword permutation with real HMAC labels; adversarial (solver-chosen) random source with recorded slot reads",
             text="(a) For every permutation of the input keyword order (solver-chosen) every label-addressed table of the real "
                  "index is in label order and shows the same label sequence; run with the real HMAC so that sortedness cannot be "
                  "an accident. (b) random.sample/choice/shuffle return solver-chosen well-formed results and SSE-1's PRP is a lazy "
                  "permutation; the slots Search reads for every keyword must be exactly the ones the environment handed out, and a "
                  "private generator seeded with < 64 bits is refused (confirmed natively by a birthday test).",
             note="Trusted: ideal primitives in (b), os.urandom/random stubs in (a); recording list wrapper around the index arrays; "
                  "the distribution of the real random source is outside (the replay compares slot sets of repeated setups).",
             ref="3/C06"),
 "C09": dict(cat="other", tech="bounded symbolic execution (CrossHair/z3) of the real client and server code composed over an in-memory transport",
             text="The documented workflow runs with the real client Service against the real connector/ServicesManager/Service for "
                  "all nine schemes, every client step by an object freshly loaded from the file-system model and the server "
                  "restarted at a solver-chosen point; the JSON database passes the real utf-8/hex conversion and the delivered "
                  "result bytes the real deserialiser and output converter; every stored and an absent keyword must be delivered "
                  "its posting list. What is decided is the composition of the repository's own client and server code.",
             note="NOT covered: the websockets library, TCP and real event-loop timing - the transport is an in-memory pair that "
                  "delivers frames in order and closes when the handler ends; asyncio is env/aio.py, the file system env/memfs.py. "
                  "Contents are concrete (pickling realises them); the solver chooses the restart point, the pace (cleanup delays "
                  "expired or not; in a separate obligation how many of the pending delays expire before each step), the keyword "
                  "sequence (two orders, one with repetitions) and whether all searches use one client object.",
             ref="4/C09"),
}

NOT_APPLICABLE = {
}

PENDING = "check not built yet in this round (see DESIGN.md section 7 for the order of work)"
ALL = ["C%02d" % i for i in range(1, 21)]


def main():
    checks = []
    for pid in ALL:
        if pid not in CLAIMED:
            continue
        c = CLAIMED[pid]
        checks.append({
            "property_id": pid,
            "quick_cmd": "./check %s --tier quick" % pid,
            "thorough_cmd": "./check %s --tier thorough" % pid,
            "evidence_file": "/verif/evidence/%s.json" % pid,
            "replay_cmd_template": "./check --replay {path}",
            "engine": c.get("engine", "sx"),
            "level_claimed": {"category": c["cat"], "text": c["text"], "design_ref": "DESIGN.md " + c["ref"]},
            "level_note": c["note"],
            "technique": c["tech"],
        })
    na = []
    for pid in ALL:
        if pid in CLAIMED:
            continue
        na.append({"property_id": pid, "reason": NOT_APPLICABLE.get(pid, PENDING)})
    m = {
        "version": 1,
        "setup_cmd": "./setup.sh",
        "hooks": {"guard": "SSEPY_VERIF", "enable": "no source hooks are needed: checks import /repo's live modules and bind "
                  "environment stubs into their namespaces from the harness side; SSEPY_VERIF=1 is exported by ./check",
                  "baseline_off_cmd": "cd /repo && /venv/bin/python -m pytest -ra -q -p no:cacheprovider --timeout=900 "
                                      "--continue-on-collection-errors",
                  "source_commits": [], "add_only": True},
        "engines": [
            {"name": "bvx", "path": "bvx/interp.py", "serves_properties": sorted(k for k, v in CLAIMED.items() if v.get("engine") == "bvx") + ["C17"],
             "kind_free_text": "own AST-to-SMT symbolic interpreter (z3 bit-vectors + uninterpreted functions), fork by "
                               "re-execution, per-obligation translator self-validation, native replay"},
            {"name": "sx", "path": "vf/sx_worker.py", "serves_properties": sorted(k for k, v in CLAIMED.items() if v.get("engine", "sx") == "sx"),
             "kind_free_text": "symbolic execution of the repository's Python with CrossHair 0.0.110 / z3, own path loop "
                               "(exhaustion + multiple counterexamples), native replay of every counterexample"},
        ],
        "checks": checks,
        "not_applicable": na,
        "notes": "Exit codes: 0 all obligations hold, 1 reproduced violation (VIOLATION line), 3 inconclusive, 2 setup error. "
                 "Genuine defects repaired in /repo are listed in known_findings.json as fixed entries.",
    }
    json.dump(m, open(os.path.join(HERE, "MANIFEST.json"), "w"), indent=1)


if __name__ == "__main__":
    main()
