"""C16 - PRF and hash wrappers: deterministic, exact output length, standard-conformant."""
from harness.common import ob, twin

META = {
    "level": "other",
    "explanation": "bounded symbolic execution (CrossHair/z3) of the real HmacPRF/_tls_p_hash and "
                   "HashlibHashVariableOutputLengthWrapper over a lazy random oracle standing in for hmac.new / "
                   "hashlib.new: key and message bytes are solver variables, the requested output length is forked "
                   "over its whole range, and the output is compared with a reference written from RFC 5246 "
                   "section 5 (P_hash) / counter-mode expansion / XOF over the SAME oracle, so the equivalence is "
                   "decided for all keys and messages of the bound; plus determinism, exact length, "
                   "distinct inputs -> distinct outputs (collision-free oracle) and the declared-length contracts "
                   "(declared lengths are unbounded symbolic ints).",
    "bounds": {"key": "0..3 symbolic bytes, plus length classes 16..80 (thorough ..129) with symbolic contents",
               "message": "0..3 symbolic bytes, plus lengths 16/64/200 with symbolic contents",
               "output length": "1..3*digest_size+2 (quick: 1..digest_size+2 and boundary values)",
               "digests": "sha1, sha256, sha512, md5 (+ shake_128, shake_256 for the hash wrapper)"},
    "outside_bounds": "longer keys/messages (the code does not branch on them), SHA/HMAC bit patterns, collisions",
    "stubs": ["hmac.new / hashlib.new: lazy random oracle (fixed stream per (alg, msg) for XOFs)"],
    "assumptions": ["HMAC / hash are deterministic functions with the digest's output size"],
    "functions": ["toolkit.prf.hmac_prf._tls_p_hash", "toolkit.prf.hmac_prf.HmacPRF.{__init__,__call__}",
                  "toolkit.prf.get_prf_implementation", "toolkit.hash.HashlibHashVariableOutputLengthWrapper.*",
                  "toolkit.hash.get_hash_implementation"],
}

DS = {"sha1": 20, "sha256": 32, "sha512": 64, "md5": 16}


def prepare(P):
    import toolkit.prf.hmac_prf, toolkit.hash  # noqa
    if not P.get("_native"):
        from env import ideal
        ideal.install()


def _begin(P):
    if not P.get("_native"):
        from env import ideal
        ideal.reset(int(P.get("seed", 0)))


def _ref_p_hash(key, msg, n, dig):
    """RFC 5246 section 5:  P_hash(secret, seed) = HMAC(secret, A(1) + seed) + HMAC(secret, A(2) + seed) + ...
    with A(0) = seed, A(i) = HMAC(secret, A(i-1)); over whatever `hmac` the module under test is bound to"""
    import toolkit.prf.hmac_prf as hp

    def H(k, m):
        return hp.hmac.new(k, m, digestmod=dig).digest()
    out = b""
    a = msg
    while len(out) < n:
        a = H(key, a)
        out += H(key, a + msg)
    return out[:n]


def h_prf(P, S):
    from toolkit.prf import get_prf_implementation
    _begin(P)
    dig = P["digest"]
    k = S.bytes("k", P["klen"])
    m = S.bytes("m", P["mlen"])
    n = S.choice("n", P["ns"])
    prf = get_prf_implementation("HmacPRF")(output_length=n, hash_func_name=dig)
    out = prf(k, m)
    if P.get("twin"):
        return False
    if len(out) != n:
        return S.fail("output-length")
    if out != _ref_p_hash(k, m, n, dig):
        return S.fail("differs-from-rfc5246-p_hash")
    if prf(k, m) != out:
        return S.fail("not-deterministic")
    return True


def h_prf_two_digests(P, S):
    """the same (key, message) under two different digests in one process: each PRF equals ITS OWN reference
    (no state shared between PRF objects)"""
    from toolkit.prf.hmac_prf import HmacPRF
    _begin(P)
    k = S.bytes("k", 2)
    m = S.bytes("m", 2)
    d1, d2 = P["digests"]
    n1 = S.choice("n1", [5, 40, 64])
    n2 = S.choice("n2", [3, 16, 40])
    o1 = HmacPRF(output_length=n1, hash_func_name=d1)(k, m)
    o2 = HmacPRF(output_length=n2, hash_func_name=d2)(k, m)
    o1b = HmacPRF(output_length=n2, hash_func_name=d1)(k, m)
    if o1 != _ref_p_hash(k, m, n1, d1) or o2 != _ref_p_hash(k, m, n2, d2) or o1b != _ref_p_hash(k, m, n2, d1):
        return S.fail("prf-depends-on-earlier-calls")
    return True


def h_prf_distinct(P, S):
    """two inputs of the same shape: equal outputs only for equal inputs (n >= 16)"""
    from toolkit.prf.hmac_prf import HmacPRF
    _begin(P)
    dig, n = P["digest"], P["n"]
    k1, m1 = S.bytes("k1", P["klen"]), S.bytes("m1", P["mlen"])
    k2, m2 = S.bytes("k2", P["klen"]), S.bytes("m2", P["mlen"])
    prf = HmacPRF(output_length=n, hash_func_name=dig)
    o1, o2 = prf(k1, m1), prf(k2, m2)
    same_in = (k1 == k2) and (m1 == m2)
    if (o1 == o2) != same_in:
        return S.fail("distinctness")
    return True


def h_prf_contracts(P, S):
    from toolkit.prf.hmac_prf import HmacPRF
    _begin(P)
    kl = S.int("kl", None, None)
    ml = S.int("ml", None, None)
    prf = HmacPRF(output_length=8, key_length=kl, message_length=ml)
    ak = S.choice("ak", [0, 1, 16, 17])
    am = S.choice("am", [0, 1, 5])
    try:
        out = prf(b"k" * ak, b"m" * am)
        ok = True
    except ValueError:
        ok = False
    if ok != ((kl == -1 or kl == ak) and (ml == -1 or ml == am)):
        return S.fail("length-contract")
    if ok and len(out) != 8:
        return S.fail("output-length")
    # default output length = digest size; unknown digests are refused
    if len(HmacPRF()(b"k", b"m")) != 20:
        return S.fail("default-output-length")
    try:
        HmacPRF(hash_func_name="no-such-hash")
        return S.fail("unknown-digest-accepted")
    except ValueError:
        return True


def _ref_hash(name, m, n):
    import toolkit.hash as th
    from toolkit.bytes_utils import int_to_bytes
    if name in ("shake_128", "shake_256"):
        return th.hashlib.new(name, m).digest(n)
    out = b""
    c = 1
    while len(out) < n:
        out += th.hashlib.new(name, m + int_to_bytes(c)).digest()
        c += 1
    return out[:n]


def h_hash(P, S):
    from toolkit.hash import get_hash_implementation
    _begin(P)
    name = P["digest"]
    m = S.bytes("m", P["mlen"])
    n = S.choice("n", P["ns"])
    h = get_hash_implementation(name)(output_length=n)
    out = h(m)
    if P.get("twin"):
        return False
    if len(out) != n:
        return S.fail("output-length")
    if out != _ref_hash(name, m, n):
        return S.fail("differs-from-reference-expansion")
    if h(m) != out:
        return S.fail("not-deterministic")
    m2 = S.bytes("m2", P["mlen"])
    if n >= 16 and (h(m2) == out) != (m2 == m):
        return S.fail("distinctness")
    return True


def _ns(ds, quick):
    full = list(range(1, 3 * ds + 3))
    if not quick:
        return full + [100, 199, 200]
    return sorted({1, 2, ds - 1, ds, ds + 1, 2 * ds - 1, 2 * ds, 2 * ds + 1, 3 * ds, 3 * ds + 2})


def obligations(tier, seed):
    obs = []
    q = tier == "quick"
    shapes = [(0, 0), (1, 1), (3, 2), (2, 3)] if q else [(a, b) for a in range(0, 4) for b in range(0, 4)]
    for dig, ds in DS.items():
        ns = _ns(ds, q)
        chunks = [ns] if q else [ns[i:i + 12] for i in range(0, len(ns), 12)]
        for klen, mlen in shapes:
            for ci, part in enumerate(chunks):
                obs.append(ob("c16.prf.%s.k%d.m%d.p%d" % (dig, klen, mlen, ci), "harness.c16", "h_prf",
                              {"digest": dig, "klen": klen, "mlen": mlen, "ns": part, "seed": seed}, budget_s=300))
        # key LENGTH classes up to the property's 80 bytes (the digest block size is where HMAC itself changes
        # behaviour); contents stay symbolic, the oracle only compares them
        for klen in ((16, 63, 64, 65, 80) if q else (4, 8, 16, 20, 32, 48, 63, 64, 65, 79, 80, 127, 128, 129)):
            obs.append(ob("c16.prf_longkey.%s.k%d" % (dig, klen), "harness.c16", "h_prf",
                          {"digest": dig, "klen": klen, "mlen": 1, "ns": [1, ds, ds + 1], "seed": seed},
                          budget_s=300))
        for mlen in ((16, 64, 200) if q else (8, 16, 55, 56, 64, 65, 119, 200)):
            obs.append(ob("c16.prf_longmsg.%s.m%d" % (dig, mlen), "harness.c16", "h_prf",
                          {"digest": dig, "klen": 2, "mlen": mlen, "ns": [ds + 1], "seed": seed}, budget_s=300))
        obs.append(ob("c16.prf_distinct.%s" % dig, "harness.c16", "h_prf_distinct",
                      {"digest": dig, "klen": 2, "mlen": 2, "n": ds + 3, "seed": seed}, budget_s=300))
    obs.append(ob("c16.prf_contracts", "harness.c16", "h_prf_contracts", {"seed": seed}, budget_s=300))
    for d1, d2 in (("sha1", "sha256"), ("sha256", "md5"), ("sha512", "sha1")):
        obs.append(ob("c16.prf_two_digests.%s.%s" % (d1, d2), "harness.c16", "h_prf_two_digests",
                      {"digests": [d1, d2], "seed": seed}, budget_s=300))
    for name in list(DS) + ["shake_128", "shake_256"]:
        ds = DS.get(name, 32)
        ns = _ns(ds, q)
        for mlen in ((0, 2) if q else (0, 1, 2, 3)):
            obs.append(ob("c16.hash.%s.m%d" % (name, mlen), "harness.c16", "h_hash",
                          {"digest": name, "mlen": mlen, "ns": ns, "seed": seed}, budget_s=300))
    obs.append(twin("c16.prf.twin", "harness.c16", "h_prf",
                    {"digest": "sha1", "klen": 1, "mlen": 1, "ns": [21], "twin": True}))
    obs.append(twin("c16.hash.twin", "harness.c16", "h_hash", {"digest": "md5", "mlen": 1, "ns": [17], "twin": True}))
    return obs
