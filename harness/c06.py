"""C06 - index layout does not encode the order in which the database was supplied."""
from harness import pipeline as PL
from harness.common import ob, twin

META = {
    "level": "other",
    "explanation": "bounded symbolic execution (CrossHair/z3) of the real EDBSetup/Search: (a) label order - the "
                   "keyword order of the input database is a solver-chosen permutation (all permutations of <= 4 "
                   "keywords), setup runs with the REAL HMAC (labels must look random, otherwise 'sorted' could be an "
                   "accident of insertion order; os.urandom/random stay deterministic stubs so the key is the same "
                   "in every permutation) and every label-addressed table of the index must have its keys in sorted "
                   "order and the same label sequence as the unpermuted run restricted to common labels; (b) "
                   "placement - the random source is the ADVERSARY: random.sample / choice / shuffle (PiPtr, Pi2Lev, "
                   "DP17) return solver-chosen well-formed results and SSE-1's PRP is a lazy random permutation; a "
                   "recording list notes which array slots Search reads, and the blocks of every keyword must sit "
                   "exactly at the slots the environment handed out for them (placement is a function of the random "
                   "source, not of input order); a private generator seeded with fewer than 64 bits is refused.",
    "bounds": {"label order": "<= 4 keywords (24 permutations), profiles incl. exactly-full levels of CT14/ANSS16",
               "placement": "<= 6 array blocks / <= 4 buckets, all permutations the adversary can return"},
    "outside_bounds": "the distribution of the random source (the native replay repeats setups and compares slot "
                      "sets, as the property's probabilistic statement does)",
    "stubs": ["(a) os.urandom -> coins, random -> LCG; HMAC/AES real", "(b) ideal primitives + adversarial random "
              "source + recording list wrapper around the index arrays"],
    "assumptions": ["HMAC outputs of distinct inputs are in no particular order (checked per run: the insertion "
                    "order of the labels is unsorted in at least one explored permutation)"],
    "functions": ["schemes.*.structures.*EncryptedDatabase.{build_from_list,create_dictionary_from_list,"
                  "create_hash_table}", "schemes.CJJ14.PiPtr.construction.PiPtr._Enc",
                  "schemes.CJJ14.Pi2Lev.construction.Pi2Lev._Enc", "schemes.DP17.Pi.construction.Pi._Enc",
                  "schemes.CGKO06.SSE1.construction.SSE1._Enc"],
}

SORTED_SCHEMES = ["CJJ14.PiBas", "CJJ14.PiPack", "CJJ14.PiPtr", "CJJ14.Pi2Lev", "CT14.Pi", "ANSS16.Scheme3"]
PERMS4 = [[0, 1, 2, 3], [0, 1, 3, 2], [0, 2, 1, 3], [0, 2, 3, 1], [0, 3, 1, 2], [0, 3, 2, 1],
          [1, 0, 2, 3], [1, 0, 3, 2], [1, 2, 0, 3], [1, 2, 3, 0], [1, 3, 0, 2], [1, 3, 2, 0],
          [2, 0, 1, 3], [2, 0, 3, 1], [2, 1, 0, 3], [2, 1, 3, 0], [2, 3, 0, 1], [2, 3, 1, 0],
          [3, 0, 1, 2], [3, 0, 2, 1], [3, 1, 0, 2], [3, 1, 2, 0], [3, 2, 0, 1], [3, 2, 1, 0]]


def prepare(P):
    PL.prepare(P)
    if not P.get("_native") and P.get("real_crypto"):
        from env import ideal
        ideal.uninstall_crypto()


def _tables(edb):
    out = []
    for n in type(edb).__slots__:
        v = getattr(edb, n)
        if isinstance(v, dict):
            out.append((n, v))
        elif isinstance(v, list):
            for i, t in enumerate(v):
                if isinstance(t, dict):
                    out.append(("%s[%d]" % (n, i), t))
    return out


def _setup_order(P, scheme, order):
    from env import ideal
    if not P.get("_native"):
        ideal.reset(int(P.get("seed", 0)))
        ideal.install(lcg_seed=7)
        ideal.uninstall_crypto()
    cfg = PL.small_config(scheme, None)
    if "param_identifier_size" in cfg:
        cfg["param_identifier_size"] = 2
    kws = PL.keywords_for(cfg)
    lens = P["lens"]
    base = {}
    c = 0
    for i, n in enumerate(lens):
        base[kws[i]] = [bytes([1 + c + j, 7]) for j in range(n)]
        c += n
    keys = list(base.keys())
    db = {keys[i]: base[keys[i]] for i in order}
    from schemes import load_sse_module
    mod = load_sse_module(scheme)
    s = mod.SSEScheme(cfg)
    if P.get("_native"):
        K = P["_key"] if "_key" in P else s.KeyGen()
        P["_key"] = K
    else:
        K = s.KeyGen()
    return db, s, K, s.EDBSetup(K, db)


def h_label_order(P, S):
    scheme = P["scheme"]
    n = len(P["lens"])
    perms = [p for p in PERMS4 if all(x < n for x in p[:n]) and sorted(p[:n]) == list(range(n))]
    perms = [p[:n] for p in perms]
    uniq = []
    for p in perms:
        if p not in uniq:
            uniq.append(p)
    order = uniq[S.pick("perm", 0, len(uniq) - 1)]
    db0, s0, K0, e0 = _setup_order(P, scheme, list(range(n)))
    db1, s1, K1, e1 = _setup_order(P, scheme, order)
    if K0.serialize() != K1.serialize():
        return S.fail("harness:keys-differ")
    if P.get("twin"):
        return False
    t0, t1 = _tables(e0), _tables(e1)
    if [a for a, _ in t0] != [a for a, _ in t1]:
        return S.fail("table-structure-depends-on-keyword-order")
    for (name, a), (_, b) in zip(t0, t1):
        ka, kb = list(a.keys()), list(b.keys())
        if kb != sorted(kb):
            return S.fail("table-not-in-label-order:%s" % name.split("[")[0])
        if ka != sorted(ka):
            return S.fail("table-not-in-label-order:%s" % name.split("[")[0])
        common = set(ka) & set(kb)
        if [k for k in ka if k in common] != [k for k in kb if k in common]:
            return S.fail("label-sequence-depends-on-keyword-order:%s" % name.split("[")[0])
    # every keyword is still found in the permuted index (the real labels are all there)
    for w in db1:
        if not PL.same(scheme, PL.search(scheme, s1, K1, e1, w), db1[w]):
            return S.fail("permuted-setup-wrong-result")
    return True


# ---------------------------------------------------------------- placement
class AdvRandom:
    """adversarial random source: results are chosen by the solver (well-formed: a permutation / an element)"""

    def __init__(self, S):
        self.S = S
        self.samples = []      # results handed out by sample()
        self.choices = []      # (options, chosen)
        self.shuffles = 0
        self.n = 0

    def _perm(self, k):
        self.n += 1
        idx = list(range(k))
        out = []
        for j in range(k):
            i = self.S.pick("r%d_%d" % (self.n, j), 0, len(idx) - 1)
            out.append(idx.pop(i))
        return out

    def sample(self, population, k):
        pop = list(population)
        if k != len(pop):
            raise AssertionError("harness: sample of a strict subset")
        res = [pop[i] for i in self._perm(k)]
        self.samples.append(list(res))
        return res

    def choice(self, seq):
        self.n += 1
        i = self.S.pick("c%d" % self.n, 0, len(seq) - 1)
        self.choices.append((list(seq), seq[i]))
        return seq[i]

    def shuffle(self, x):
        self.shuffles += 1
        if len(x) > 3:          # large buckets: a fixed rotation (the in-bucket order is not observable by Search)
            x.append(x.pop(0))
            return
        p = self._perm(len(x))
        x[:] = [x[i] for i in p]

    def randint(self, a, b):
        return a

    class _Private:
        def __init__(self, outer, bits):
            self.outer, self.bits = outer, bits

        def __getattr__(self, n):
            return getattr(self.outer, n)

    def Random(self, seed=None):
        # a private generator: acceptable only if it is seeded with enough entropy for the property's
        # "differ except with probability < 1e-8" (>= 64 bits asked for)
        bits = 8 * len(seed) if isinstance(seed, (bytes, bytearray)) else (0 if seed is not None else 10 ** 6)
        if bits < 64:
            raise LowEntropy("placement generator seeded with %d bits" % bits)
        return AdvRandom._Private(self, bits)


class LowEntropy(Exception):
    pass


class RecList(list):
    reads = None

    def __getitem__(self, i):
        if RecList.reads is not None and not isinstance(i, slice):
            RecList.reads.append(int(i))
        return list.__getitem__(self, i)


def _reads(fn):
    RecList.reads = []
    try:
        r = fn()
    finally:
        got, RecList.reads = RecList.reads, None
    return r, got


def h_place_ptr(P, S):
    """PiPtr / Pi2Lev: block n (in processing order) sits at the slot the random permutation handed out n-th"""
    import importlib
    scheme = P["scheme"]
    if P.get("_native"):
        return _native_moves(P, S)
    PL.begin(P)
    C = importlib.import_module("schemes.%s.construction" % scheme)
    adv = AdvRandom(S)
    C.random = adv
    cfg = PL.small_config(scheme, P.get("over"))
    db = PL.make_db(dict(P, concrete_ids=True), S, scheme, cfg, P["lens"])
    try:
        mod, s, K, edb = PL.build(scheme, cfg, db)
    except LowEntropy:
        return S.fail("placement-from-a-low-entropy-private-generator")
    if len(adv.samples) != 1:
        return S.fail("slots-not-drawn-from-the-random-source")
    handed = list(reversed(adv.samples[0]))          # pop() takes from the end
    edb.A = RecList(edb.A)
    if P.get("twin"):
        return False
    n = 0
    B = cfg["param_B"]
    for w in db:
        res, got = _reads(lambda: PL.search(scheme, s, K, edb, w))
        if not PL.same(scheme, res, db[w]):
            return S.fail("wrong-result")
        nblocks = 0
        L = len(db[w])
        if scheme == "CJJ14.PiPtr":
            nblocks = -(-L // B)
        else:
            b, Bp, bp = cfg["param_b"], cfg["param_B_prime"], cfg["param_b_prime"]
            if L > b:
                nblocks = -(-L // B)
            if L > bp * B:
                nblocks += -(-(-(-L // B)) // Bp)
        want = handed[n:n + nblocks]
        n += nblocks
        if sorted(got) != sorted(want):
            return S.fail("blocks-not-at-the-slots-the-random-source-returned")
    return True


def h_place_dp17(P, S):
    """DP17: every chunk sits in the bucket the random source chose for it"""
    import schemes.DP17.Pi.construction as C
    if P.get("_native"):
        return _native_moves(P, S)
    PL.begin(P)
    adv = AdvRandom(S)
    C.random = adv
    scheme = "DP17.Pi"
    cfg = PL.small_config(scheme, P.get("over"))
    db = PL.make_db(dict(P, concrete_ids=True), S, scheme, cfg, P["lens"])
    try:
        mod, s, K, edb = PL.build(scheme, cfg, db)
    except LowEntropy:
        return S.fail("placement-from-a-low-entropy-private-generator")
    nchunks = len(adv.choices)
    if nchunks == 0:
        return S.fail("buckets-not-drawn-from-the-random-source")
    # DP17's array A_i has 2N + 2^(i+1) cells in buckets of 2^(i+1): at least two buckets per level, so the first
    # chunk placed anywhere must have had a real choice - otherwise every setup puts it in the same bucket
    if len(adv.choices[0][0]) < 2:
        return S.fail("placement-has-no-choice")
    if adv.shuffles == 0:
        return S.fail("buckets-not-shuffled")
    for lvl in list(edb.A_dict.keys()):
        edb.A_dict[lvl] = RecList(edb.A_dict[lvl])
    if P.get("twin"):
        return False
    ci = 0
    for w in db:
        res, got = _reads(lambda: PL.search(scheme, s, K, edb, w))
        if not PL.same(scheme, res, db[w]):
            return S.fail("wrong-result")
        k = len(set(got))
        chosen = [c for (_, c) in adv.choices[ci:ci + max(k, 1)]]
        # the chunks of w were placed by consecutive choice() calls
        nch = 0
        while ci + nch < len(adv.choices) and nch < len(got):
            nch += 1
        want = sorted(c for (_, c) in adv.choices[ci:ci + len(got)])
        if sorted(got) != want:
            return S.fail("chunk-not-in-the-bucket-the-random-source-chose")
        ci += len(got)
    return True


def h_place_sse1(P, S):
    """SSE-1: node c of the array sits at psi_K1(c): the addresses Search reads are PRP outputs of 1..N"""
    if P.get("_native"):
        return _native_moves(P, S)
    from env import ideal
    PL.begin(P)
    scheme = "CGKO06.SSE1"
    cfg = PL.small_config(scheme, P.get("over"))
    db = PL.make_db(dict(P, concrete_ids=True), S, scheme, cfg, P["lens"])
    mod, s, K, edb = PL.build(scheme, cfg, db)
    edb.A = RecList(edb.A)
    bits = s.config.param_log2_s
    tab = dict(ideal.W.prp.get((bytes(K.K1), bits), []))
    if P.get("twin"):
        return False
    ctr = 1
    for w in db:
        res, got = _reads(lambda: PL.search(scheme, s, K, edb, w))
        if res != db[w]:
            return S.fail("wrong-result")
        want = [tab.get(c) for c in range(ctr, ctr + len(db[w]))]
        ctr += len(db[w])
        if got != want:
            return S.fail("nodes-not-at-prp-derived-addresses")
    # a fresh key on the SAME scheme object: the placement must follow the new key's permutation
    K2 = s.KeyGen()
    edb2 = s.EDBSetup(K2, db)
    edb2.A = RecList(edb2.A)
    tab2 = dict(ideal.W.prp.get((bytes(K2.K1), bits), []))
    ctr = 1
    for w in db:
        res, got = _reads(lambda: PL.search(scheme, s, K2, edb2, w))
        if res != db[w]:
            return S.fail("wrong-result-after-rekeying")
        want = [tab2.get(c) for c in range(ctr, ctr + len(db[w]))]
        ctr += len(db[w])
        if got != want:
            return S.fail("placement-not-derived-from-the-new-key")
    return True


def _native_moves(P, S):
    """the property's own statement with the real random source: two setups of a database with >= 12 array blocks
    read different slot sets"""
    import importlib, os
    scheme = P["scheme"]
    from schemes import load_sse_module
    mod = load_sse_module(scheme)
    cfg = PL.small_config(scheme, P.get("over"))
    if scheme == "CGKO06.SSE1":
        cfg.update(param_s=64)
    size = cfg.get("param_identifier_size", 1)
    kws = PL.keywords_for(cfg)
    db = {kws[i]: [os.urandom(size) for _ in range(6)] for i in range(4)}
    seen = []
    s = mod.SSEScheme(cfg)           # one scheme object, as a long-lived client would use it
    for rep in range(3):
        K = s.KeyGen() if (scheme == "CGKO06.SSE1" or rep == 0) else K
        edb = s.EDBSetup(K, db)
        if hasattr(edb, "A"):
            edb.A = RecList(edb.A)
        else:
            for lvl in list(edb.A_dict.keys()):
                edb.A_dict[lvl] = RecList(edb.A_dict[lvl])
        slots = []
        for w in db:
            _, got = _reads(lambda: s.Search(edb, s.TokenGen(K, w)))
            slots.append(tuple(got))
        seen.append(tuple(slots))
    if len(set(seen)) < len(seen):
        return S.fail("two-setups-use-the-same-slots")
    return True


def replay(spec, P, cex):
    """native confirmation of a low-entropy placement generator: the property's probabilistic statement, as a
    birthday test - 1500 setups of a 24-block database under one key (AES-128 configuration); with a properly
    random placement a repeated slot assignment has probability < 1e-15"""
    if not str(cex.get("tag", "")).startswith("placement-from-a-low-entropy"):
        return None
    import os
    from schemes import load_sse_module
    scheme = P["scheme"]
    mod = load_sse_module(scheme)
    for lam in (16, 24):
        cfg = PL.small_config(scheme, {"param_lambda": lam, "prf_f_output_length": lam, "param_identifier_size": 2})
        kws = PL.keywords_for(cfg)
        db = {kws[i]: [bytes([i + 1, j + 1]) for j in range(6)] for i in range(8)}
        s = mod.SSEScheme(cfg)
        K = s.KeyGen()
        seen = set()
        for rep in range(1500):
            edb = s.EDBSetup(K, db)
            edb.A = RecList(edb.A)
            slots = []
            for w in list(db)[:3]:
                _, got = _reads(lambda: s.Search(edb, s.TokenGen(K, w)))
                slots.append(tuple(got))
            key = tuple(slots)
            if key in seen:
                return True, "param_lambda=%d: identical slot placement after %d setups of a 24-block database" % (lam, rep + 1), \
                    "placement-from-a-low-entropy-private-generator"
            seen.add(key)
    return False, "no repeated placement in 2 x 1500 setups", ""


def obligations(tier, seed):
    obs = []
    q = tier == "quick"
    profs = [[1, 1, 1, 1], [2, 1, 3], [5, 1, 6, 2]] if q else \
        [[1, 1, 1, 1], [2, 1, 3], [5, 1, 6, 2], [2, 2, 2, 2], [4, 4], [1, 2, 3, 4], [7, 5, 6]]
    for scheme in SORTED_SCHEMES:
        for lens in profs:
            obs.append(ob("c06.label_order.%s.%s" % (scheme, "-".join(map(str, lens))), "harness.c06", "h_label_order",
                          {"scheme": scheme, "lens": lens, "real_crypto": True, "seed": seed}, budget_s=600))
    for scheme, lens_list in (("CJJ14.PiPtr", [[3, 2], [5]] if q else [[3, 2], [5], [2, 2, 2], [7, 1]]),
                              ("CJJ14.Pi2Lev", [[3, 3], [5]] if q else [[3, 3], [5], [4, 3, 1], [6, 3]])):
        for lens in lens_list:
            obs.append(ob("c06.place.%s.%s" % (scheme, "-".join(map(str, lens))), "harness.c06", "h_place_ptr",
                          {"scheme": scheme, "over": {}, "lens": lens, "seed": seed}, budget_s=900))
    for lens in ([[2, 1]] if q else [[2, 1], [3], [1, 1, 1]]):
        for L in (1, 2):
            obs.append(ob("c06.place.DP17.Pi.L%d.%s" % (L, "-".join(map(str, lens))), "harness.c06", "h_place_dp17",
                          {"scheme": "DP17.Pi", "over": {"param_L": L}, "lens": lens, "seed": seed}, budget_s=900))
    for lens in ([[3, 2]] if q else [[3, 2], [1, 1, 1], [6]]):
        obs.append(ob("c06.place.CGKO06.SSE1.%s" % "-".join(map(str, lens)), "harness.c06", "h_place_sse1",
                      {"scheme": "CGKO06.SSE1", "over": {}, "lens": lens, "seed": seed}, budget_s=600))
    obs.append(twin("c06.label.twin", "harness.c06", "h_label_order",
                    {"scheme": "CT14.Pi", "lens": [1, 1, 1, 1], "real_crypto": True, "twin": True}))
    obs.append(twin("c06.place.twin", "harness.c06", "h_place_ptr",
                    {"scheme": "CJJ14.PiPtr", "over": {}, "lens": [3, 2], "twin": True}))
    return obs
