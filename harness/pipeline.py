"""Shared pipeline for C01-C08: builds a scheme through the public API under the ideal-primitive environment
(symbolic run) or with the real primitives (native replay), and databases with symbolic identifier bytes."""
import copy

SCHEMES = ["CJJ14.PiBas", "CJJ14.PiPack", "CJJ14.PiPtr", "CJJ14.Pi2Lev", "CT14.Pi", "ANSS16.Scheme3", "DP17.Pi",
           "CGKO06.SSE1", "CGKO06.SSE2"]

# schemes whose identifiers must stay concrete in SX (they are used as dict keys = hashed = realised)
CONCRETE_IDS = {"CGKO06.SSE2"}

KEYWORDS = [b"kw", b"kwx", b"b", b"a longer keyword 0123456789abcdef", b"k5", b"kw6", b"7", b"x8", b"y9"]


def keywords_for(cfg):
    """the fixed keyword universe, cut to the scheme's keyword-length limit where it has one"""
    lim = cfg.get("param_l") if "param_s" in cfg or "param_max_file_size" in cfg else None
    out = []
    for k in KEYWORDS:
        k = k[:lim] if lim else k
        if k not in out:
            out.append(k)
    return out


def beq(a, b):
    """byte-string equality as ONE solver decision (CrossHair's bytes == short-circuits byte by byte, which forks
    on every position; identifiers of one list are asserted distinct, so the whole comparison is decided at once)"""
    if len(a) != len(b):
        return False
    if len(a) <= 1:
        return a == b
    return int.from_bytes(a, "big") == int.from_bytes(b, "big")


class ListSet:
    """environment model of the builtin set for DP17's result (membership by equality instead of hashing,
    so that symbolic identifiers are not realised).  Bound as schemes.DP17.Pi.construction.set."""

    def __init__(self, it=()):
        self.items = []
        for x in it:
            self.add(x)

    def add(self, x):
        for y in self.items:
            if beq(y, x):
                return
        self.items.append(x)

    def __iter__(self):
        return iter(self.items)

    def __len__(self):
        return len(self.items)

    def clear(self):
        self.items.clear()

    def copy(self):
        return ListSet(self.items)

    def __contains__(self, x):
        for y in self.items:
            if beq(y, x):
                return True
        return False


def prepare(P):
    """worker start-up: import everything, bind the stubs (symbolic run only)"""
    import schemes  # noqa: F401
    from schemes import load_sse_module
    for s in SCHEMES:
        m = load_sse_module(s)
        m.SSEScheme, m.SSEConfig, m.SSEKey
    if not P.get("_native"):
        from env import ideal
        ideal.install(lcg_seed=7 + int(P.get("seed", 0)))
        import schemes.DP17.Pi.construction as dp
        dp.set = ListSet


def begin(P):
    """per-path reset of the environment"""
    if not P.get("_native"):
        from env import ideal
        ideal.reset(int(P.get("seed", 0)))
        ideal.install(lcg_seed=7 + int(P.get("seed", 0)))


def small_config(scheme, over=None):
    """a small but valid configuration of `scheme` (defaults with tiny block parameters), then `over`"""
    from schemes import load_sse_module
    cfg = copy.deepcopy(load_sse_module(scheme).SSEConfig.get_default_config())
    if scheme == "CJJ14.PiPack":
        cfg.update(param_B=2, param_identifier_size=1)
    elif scheme == "CJJ14.PiPtr":
        cfg.update(param_B=2, param_b=2, param_identifier_size=1)
    elif scheme == "CJJ14.Pi2Lev":
        cfg.update(param_B=2, param_b=2, param_B_prime=2, param_b_prime=2, param_identifier_size=1)
    elif scheme in ("CT14.Pi", "ANSS16.Scheme3"):
        cfg.update(param_identifier_size=1)
    elif scheme == "DP17.Pi":
        cfg.update(param_identifier_size=1)
    elif scheme == "CGKO06.SSE1":
        cfg.update(param_s=16, param_dictionary_size=4, param_identifier_size=1, param_l=4)
    elif scheme == "CGKO06.SSE2":
        cfg.update(param_l=4, param_identifier_size=1, param_max_file_size=4, param_n=4)
    if over:
        cfg.update(over)
    return cfg


def id_size(cfg):
    # PiBas has no identifier-size parameter (any length works): the harness picks one
    return cfg.get("param_identifier_size", cfg.get("_id_size", 1))


def make_db(P, S, scheme, cfg, lens, keywords=None):
    """database with len(lens) keywords; identifier bytes symbolic (concrete for CONCRETE_IDS), pairwise
    distinct within a list (assumed, not forked)"""
    size = id_size(cfg)
    kws = keywords or keywords_for(cfg)
    db = {}
    ctr = 0
    for ki, n in enumerate(lens):
        if n == 0:
            continue
        ids = []
        for j in range(n):
            ctr += 1
            if scheme in CONCRETE_IDS or P.get("concrete_ids"):
                v = ((ctr * 37 + 11) % (256 ** size - 1)) + 1
                ids.append(v.to_bytes(size, "big"))
            else:
                ids.append(S.ident("id%d_%d" % (ki, j), size, zero_free_pos=ctr))
        if not (scheme in CONCRETE_IDS or P.get("concrete_ids")):
            S.distinct(ids)
        db[kws[ki]] = ids
    if scheme == "CGKO06.SSE2":
        files = set()
        for v in db.values():
            files.update(v)
        cfg["param_n"] = max(len(files), 1)
    return db


def as_list(scheme, result):
    r = result.get_result_list()
    if isinstance(r, ListSet):
        return list(r.items)
    return r


def same(scheme, got, want):
    """result comparison of the property: ordered list, or set for DP17"""
    if scheme == "DP17.Pi":
        got = list(got)
        if len(got) != len(want):
            return False
        for w in want:
            found = False
            for g in got:
                if beq(g, w):
                    found = True
                    break
            if not found:
                return False
        return True
    return list(got) == list(want)


def build(scheme, cfg, db):
    from schemes import load_sse_module
    mod = load_sse_module(scheme)
    s = mod.SSEScheme(cfg)
    K = s.KeyGen()
    edb = s.EDBSetup(K, db)
    return mod, s, K, edb


def search(scheme, s, K, edb, w):
    return as_list(scheme, s.Search(edb, s.TokenGen(K, w)))
