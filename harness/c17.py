"""C17 - byte-level encodings round-trip (toolkit.database_utils, toolkit.bytes_utils)."""
from harness.common import ob, twin

META = {
    "level": "other",
    "explanation": "bounded symbolic execution (CrossHair/z3) of the real toolkit.bytes_utils / "
                   "toolkit.database_utils functions: structure (lengths, counts) is concrete per obligation or "
                   "forked explicitly, byte contents and slice lengths are solver variables; each path's assertion "
                   "is decided by z3 for all values on that path",
    "bounds": {"split": "byte strings of length 0..6, 1..4 slice lengths each 0..len+1",
               "blocks": "identifier size 1..3, capacity 1..4, n 0..7, slack 0..2 bytes",
               "ints": "widths 0..6 bytes (SX) and 0..4/0..16 bytes (BVX bit-vectors), all values; xor operands up to 4/16 bytes, second operand shorter or equal; "
               "plus a native boundary family for the default-width encoder (256^k+d, k <= 40; 2^k+d, k <= 320), which "
               "is where a floating-point width computation would go wrong"},
    "outside_bounds": "longer strings / larger geometries (the code does not branch on content beyond the "
                      "all-zero test); bytes.fromhex / bytes.hex / str.encode are CPython builtins = environment",
    "stubs": ["bytes/str codec builtins in convert_database_keyword_to_bytes are replaced by an opaque injective "
              "stand-in (plumbing obligation only)"],
    "assumptions": ["CrossHair's models of bytes slicing/join/comparison are faithful (every counterexample is "
                    "replayed natively)"],
    "functions": ["toolkit.bytes_utils.split_bytes_given_slice_len", "toolkit.bytes_utils.int_to_bytes",
                  "toolkit.bytes_utils.int_from_bytes", "toolkit.bytes_utils.add_leading_zeros",
                  "toolkit.bytes_utils.bytes_xor", "toolkit.database_utils.partition_identifiers_to_blocks",
                  "toolkit.database_utils.parse_identifiers_from_block_given_identifier_size",
                  "toolkit.database_utils.parse_identifiers_from_block_given_entry_count_in_one_block",
                  "toolkit.database_utils.convert_database_keyword_to_bytes",
                  "toolkit.bytes_utils.BytesConverter.convert_bytes"],
}


# ---------------------------------------------------------------- split
def h_split(P, S):
    from toolkit.bytes_utils import split_bytes_given_slice_len
    L, k = P["len"], P["k"]
    x = S.bytes("x", L)
    lens = [S.int("l%d" % i, 0, L + 1) for i in range(k)]
    total = 0
    for v in lens:
        total = total + v
    try:
        pieces = split_bytes_given_slice_len(x, list(lens))
    except ValueError:
        if total == L:
            return S.fail("refused-valid")
        return True
    if total != L:
        return S.fail("accepted-mismatch")
    if P.get("twin"):
        return False
    if len(pieces) != k:
        return S.fail("piece-count")
    c = 0
    for i in range(k):
        if len(pieces[i]) != lens[i]:
            return S.fail("piece-length")
        if pieces[i] != x[c:c + lens[i]]:
            return S.fail("piece-content")
        c = c + lens[i]
    if b"".join(pieces) != x:
        return S.fail("concat")
    return True


# ---------------------------------------------------------------- id blocks
def h_blocks(P, S):
    from toolkit.database_utils import (partition_identifiers_to_blocks,
                                        parse_identifiers_from_block_given_identifier_size,
                                        parse_identifiers_from_block_given_entry_count_in_one_block)
    size, cap, n, slack = P["size"], P["cap"], P["n"], P["slack"]
    # domain: identifiers are not all-zero - one byte position (rotating) is 1..255, which states the predicate
    # without a fork per identifier
    # (large geometries: the non-zero byte is the first or second one only - the parser's zero test short-circuits
    # byte by byte, so a late non-zero position costs one fork per earlier byte and identifier)
    ids = [S.ident("id%d" % i, size, zero_free_pos=(i % 2 if P.get("big") else i)) for i in range(n)]
    bs = cap * size + slack
    if P["explicit_bs"]:
        blocks = list(partition_identifiers_to_blocks(ids, cap, size, bs))
    else:
        bs = cap * size
        blocks = list(partition_identifiers_to_blocks(ids, cap, size))
    if P.get("twin"):
        return False
    if len(blocks) != (n + cap - 1) // cap:
        return S.fail("block-count")
    for b in blocks:
        if len(b) != bs:
            return S.fail("block-length")
    got = []
    for b in blocks:
        got.extend(parse_identifiers_from_block_given_identifier_size(b, size))
    if got != ids:
        return S.fail("parse-by-size")
    if bs // cap == size:
        got2 = []
        for b in blocks:
            got2.extend(parse_identifiers_from_block_given_entry_count_in_one_block(b, cap))
        if got2 != ids:
            return S.fail("parse-by-count")
    return True


def h_blocks_refuse(P, S):
    """block size smaller than capacity*size is refused; any larger one accepted"""
    from toolkit.database_utils import partition_identifiers_to_blocks
    size, cap = P["size"], P["cap"]
    bs = S.int("bs", None, None)          # unbounded: the check must partition ALL integers
    ids = [b"\x01" * size] if P["nonempty"] else []
    if P["nonempty"] and bs > cap * size + 2:
        return True                        # padding length is covered by h_blocks
    try:
        blocks = list(partition_identifiers_to_blocks(ids, cap, size, bs))
    except ValueError:
        return True if (bs != 0 and bs < cap * size) else S.fail("refused-valid-blocksize")
    if bs != 0 and bs < cap * size:
        return S.fail("accepted-small-blocksize")
    if not P["nonempty"]:
        return blocks == []
    return len(blocks) == 1 and len(blocks[0]) == (bs or cap * size)


# ---------------------------------------------------------------- ints / xor / zeros
def h_ints(P, S):
    from toolkit.bytes_utils import int_to_bytes, int_from_bytes, add_leading_zeros
    w = P["w"]
    raw = S.bytes("raw", w)
    v = int_from_bytes(raw)
    ref = 0
    for b in raw:
        ref = ref * 256 + b
    if v != ref:
        return S.fail("int_from_bytes")
    if P.get("twin"):
        return False
    back = int_to_bytes(v, w)
    if back != raw:
        return S.fail("int_to_bytes-width")
    if int_from_bytes(back) != v:
        return S.fail("roundtrip")
    extra = P["extra"]
    padded = add_leading_zeros(raw, w + extra)
    if padded != b"\x00" * extra + raw:
        return S.fail("add_leading_zeros")
    if add_leading_zeros(raw, max(w - 1, 0)) != raw:
        return S.fail("add_leading_zeros-shorter")
    if int_from_bytes(padded) != v:
        return S.fail("leading-zero-value")
    return True


def h_int_minimal(P, S):
    """int_to_bytes without a width uses the minimal width and round-trips (x given as an int)"""
    from toolkit.bytes_utils import int_to_bytes, int_from_bytes
    w = P["w"]
    x = S.int("x", 0, 256 ** w - 1)
    if w and x < 256 ** (w - 1):
        return True
    if w == 0 and x != 0:
        return True
    b = int_to_bytes(x)
    if len(b) != w:
        return S.fail("minimal-width")
    if int_from_bytes(b) != x:
        return S.fail("roundtrip")
    try:
        int_to_bytes(x, w - 1) if w else None
    except OverflowError:
        return True
    return True if w == 0 else S.fail("too-narrow-accepted")


def int_family(P):
    """native: the boundary family 256^k + d and 2^k + d of the default-width encoder (where a width computed with
    floating-point logarithms goes wrong, which no integer encoding of the solver run can express)"""
    from toolkit.bytes_utils import int_to_bytes, int_from_bytes
    vals = set(range(0, 1 << 10))
    for k in range(0, 41):
        for d in (-256, -255, -1, 0, 1, 255, 256):
            vals.add(256 ** k + d)
    for k in range(0, 321):
        for d in (-1, 0, 1):
            vals.add((1 << k) + d)
    bad, n = [], 0
    for v in sorted(x for x in vals if x >= 0):
        n += 1
        want = (v.bit_length() + 7) // 8
        try:
            b = int_to_bytes(v)
        except Exception as e:
            bad.append({"args": {"x": str(v)}, "tag": "raise:" + type(e).__name__,
                        "detail": "int_to_bytes(%d) raised %r" % (v, e)})
            continue
        if len(b) != want or int_from_bytes(b) != v:
            bad.append({"args": {"x": str(v)}, "tag": "minimal-width-or-roundtrip",
                        "detail": "int_to_bytes(%d) has %d bytes, minimal width %d, decodes to %d" % (v, len(b), want, int_from_bytes(b))})
        if int_from_bytes(int_to_bytes(v, want + 2)) != v:
            bad.append({"args": {"x": str(v)}, "tag": "explicit-width-roundtrip", "detail": ""})
    return n, bad, [{"family": "256^k+d (k<=40), 2^k+d (k<=320), 0..1023", "values": n}]


def h_xor(P, S):
    from toolkit.bytes_utils import bytes_xor
    n = P["n"]
    a = S.bytes("a", n)
    b = S.bytes("b", n)
    c = bytes_xor(a, b)
    if P.get("twin"):
        return False
    if len(c) != n:
        return S.fail("xor-length")
    for i in range(n):
        if c[i] != a[i] ^ b[i]:
            return S.fail("xor-value")
    if bytes_xor(c, b) != a:
        return S.fail("xor-involution")
    if bytes_xor(a, b"\x00" * n) != a:
        return S.fail("xor-zero")
    return True


def hb_xor(P, X):
    """BVX: bytes_xor for all byte values; operand b may be shorter (prefix xor), involution"""
    from toolkit.bytes_utils import bytes_xor
    import z3
    n, m = P["n"], P["m"]
    a = X.bytes("a", n)
    b = X.bytes("b", m)
    c = X.call(bytes_xor, a, b)
    if len(c) != n:
        return False
    conds = []
    for i in range(n):
        if i < m:
            conds.append(X.eq(c[i], X.ref(lambda x, y: x ^ y, a[i], b[i])))
        else:
            conds.append(X.eq(c[i], a[i]))
    back = X.call(bytes_xor, c, b)
    return X.all(X.bytes_eq(back, a), *conds)


def hb_int_roundtrip(P, X):
    """BVX: int_to_bytes / int_from_bytes for all values at a width; too-narrow widths raise"""
    from toolkit.bytes_utils import int_to_bytes, int_from_bytes
    from bvx.api import Raised
    w = P["w"]
    x = X.int("x", 8 * w)
    bs = X.call(int_to_bytes, x, w)
    if len(bs) != w:
        return False
    y = X.call(int_from_bytes, bs) if not X.symbolic else None
    conds = []
    for i in range(w):
        sh = 8 * (w - 1 - i)
        import z3
        conds.append(X.eq(bs[i], X.ref(lambda v, sh=sh: z3.LShR(v, sh) & 255, x)))
    if w >= 1:
        big = X.int("big", 8 * w + 4)
        try:
            X.call(int_to_bytes, big, w)
            conds.append(X.ult(big, 1 << (8 * w)))
        except Raised as r:
            if not isinstance(r.exc, OverflowError):
                return False
            conds.append(X.not_(X.ult(big, 1 << (8 * w))))
    if y is not None:
        conds.append(y == x)
    return X.all(*conds)


# ---------------------------------------------------------------- database / output conversion (plumbing)
class _OpaqueBytes:
    """stand-in for the builtin `bytes` inside toolkit.database_utils: records every conversion"""
    def __init__(self):
        self.log = []

    def __call__(self, s, encoding=None):
        self.log.append(("enc", s, encoding))
        return ("K", s, encoding)

    def fromhex(self, h):
        self.log.append(("hex", h))
        return ("I", h)


def h_convert(P, S):
    import toolkit.database_utils as DU
    nk = S.pick("nk", 0, 3)
    db = {}
    shape = []
    for i in range(nk):
        ni = S.pick("n%d" % i, 0, 3)
        shape.append(ni)
        db["kw%d" % i] = ["id%d_%d" % (i, j) for j in range(ni)]
    snapshot = {k: list(v) for k, v in db.items()}
    enc = S.choice("enc", ["utf-8", "latin-1"])
    ob_ = _OpaqueBytes()
    saved = DU.__dict__.get("bytes", None)
    DU.bytes = ob_
    try:
        if enc == "utf-8":
            out = DU.convert_database_keyword_to_bytes(db)
        else:
            out = DU.convert_database_keyword_to_bytes(db, encoding=enc)
    finally:
        if saved is None:
            del DU.bytes
        else:
            DU.bytes = saved
    if P.get("twin"):
        return False
    if db != snapshot:
        return S.fail("input-mutated")
    if list(out.keys()) != [("K", "kw%d" % i, enc) for i in range(nk)]:
        return S.fail("keyword-conversion")
    for i in range(nk):
        if out[("K", "kw%d" % i, enc)] != [("I", "id%d_%d" % (i, j)) for j in range(shape[i])]:
            return S.fail("identifier-conversion")
    n_enc = len([e for e in ob_.log if e[0] == "enc"])
    n_hex = len([e for e in ob_.log if e[0] == "hex"])
    if n_enc != nk or n_hex != sum(shape):
        return S.fail("conversion-count")
    return True


def h_convert_bytes(P, S):
    from toolkit.bytes_utils import BytesConverter, int_from_bytes
    x = S.bytes("x", P["n"])
    # hex/utf8 are thin wrappers over C codecs (environment): symbolic content only up to 1 byte
    fmt = S.choice("fmt", ["int", "raw", "bogus", "", "INT"] + (["hex", "utf8"] if P["n"] <= 1 else []))
    try:
        r = BytesConverter.convert_bytes(x, fmt)
    except UnicodeDecodeError:
        return True if fmt == "utf8" else S.fail("decode-error-in-non-utf8-format")
    except ValueError:
        return True if fmt in ("bogus", "", "INT") else S.fail("refused-supported-format")
    if fmt in ("bogus", "", "INT"):
        return S.fail("accepted-unknown-format")
    if fmt == "raw":
        return r == x
    if fmt == "int":
        return r == int_from_bytes(x)
    if fmt == "hex":
        digits = "0123456789abcdef"
        exp = "".join(digits[b >> 4] + digits[b & 15] for b in x)
        return r == exp
    return True


def obligations(tier, seed):
    obs = []
    lens = range(0, 5) if tier == "quick" else range(0, 7)
    ks = (1, 2, 3) if tier == "quick" else (1, 2, 3, 4)
    for L in lens:
        for k in ks:
            obs.append(ob("c17.split.L%d.k%d" % (L, k), "harness.c17", "h_split", {"len": L, "k": k}, budget_s=120))
    obs.append(twin("c17.split.twin", "harness.c17", "h_split", {"len": 2, "k": 2, "twin": True}))
    sizes = (1, 2) if tier == "quick" else (1, 2, 3)
    caps = (1, 2, 3) if tier == "quick" else (1, 2, 3, 4)
    ns = (0, 1, 2, 3, 4, 5) if tier == "quick" else range(0, 8)
    for size in sizes:
        for cap in caps:
            for n in ns:
                for slack, ebs in ((0, False), (0, True), (1, True), (2, True)):
                    if tier == "quick" and slack == 2:
                        continue
                    obs.append(ob("c17.blocks.s%d.c%d.n%d.k%d%s" % (size, cap, n, slack, "e" if ebs else ""),
                                  "harness.c17", "h_blocks",
                                  {"size": size, "cap": cap, "n": n, "slack": slack, "explicit_bs": ebs},
                                  budget_s=120))
    if tier != "quick":
        # the geometries of the repository's own tests and of the default configurations, contents symbolic
        for size, cap, n, slack in ((40, 3, 7, 0), (1, 70, 141, 0)):
            obs.append(ob("c17.blocks.big.s%d.c%d.n%d.k%d" % (size, cap, n, slack), "harness.c17", "h_blocks",
                          {"size": size, "cap": cap, "n": n, "slack": slack, "explicit_bs": True, "big": True},
                          budget_s=400, per_path_s=120))
    obs.append(twin("c17.blocks.twin", "harness.c17", "h_blocks",
                    {"size": 2, "cap": 2, "n": 3, "slack": 1, "explicit_bs": True, "twin": True}))
    for size, cap in ((1, 1), (2, 3), (3, 4)):
        for ne in (False, True):
            obs.append(ob("c17.blocks_refuse.s%d.c%d.%s" % (size, cap, "one" if ne else "empty"), "harness.c17",
                          "h_blocks_refuse", {"size": size, "cap": cap, "nonempty": ne}))
    for w in (range(0, 5) if tier == "quick" else range(0, 7)):
        obs.append(ob("c17.ints.w%d" % w, "harness.c17", "h_ints", {"w": w, "extra": 1 + w % 3}))
    obs.append(twin("c17.ints.twin", "harness.c17", "h_ints", {"w": 2, "extra": 1, "twin": True}))
    for w in (range(0, 4) if tier == "quick" else range(0, 6)):
        obs.append(ob("c17.int_minimal.w%d" % w, "harness.c17", "h_int_minimal", {"w": w}))
    obs.append(ob("c17.int_family", "harness.c17", "int_family", {}, engine="native"))
    for n in (range(0, 5) if tier == "quick" else range(0, 17)):
        for m in sorted({0, n // 2, n}):
            obs.append(ob("c17.xor.n%d.m%d" % (n, m), "harness.c17", "hb_xor", {"n": n, "m": m, "W": 16, "seed": seed},
                          engine="bvx", selftest=5))
    for w in (range(0, 5) if tier == "quick" else range(0, 17)):
        obs.append(ob("c17.int_bvx.w%d" % w, "harness.c17", "hb_int_roundtrip", {"w": w, "W": 8 * w + 24, "seed": seed},
                      engine="bvx", selftest=5))
    obs.append(ob("c17.convert_db", "harness.c17", "h_convert", {}))
    obs.append(twin("c17.convert_db.twin", "harness.c17", "h_convert", {"twin": True}))
    for n in (0, 1, 2):
        obs.append(ob("c17.convert_bytes.n%d" % n, "harness.c17", "h_convert_bytes", {"n": n}))
    return obs
