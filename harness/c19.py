"""C19 - persistent fixed-length byte array vs. a plain list model (data_persistence.persistent_array)."""
import os
import shutil

from harness.common import ob, twin

META = {
    "level": "model_checking",
    "explanation": "one inductive step of the array's operation set, executed symbolically (CrossHair/z3) on real "
                   "files in a scratch directory: the pre-state is built through the public API from a symbolic "
                   "choice (geometry, which cells were written, which chunk files are open, open / reopened / "
                   "closed), then one operation with symbolic parameters (unbounded integer index; slice "
                   "start/stop/step; value kind) runs on the real SPFLBArray and on a list model; observation, "
                   "exception, full re-read (also after close+reopen) and directory listing are compared. "
                   "Depth-2 sequences cross-check the reachable-state argument.",
    "bounds": {"array_len": "2..3 + 5 (quick) / 1..5, 13, 40 (thorough)", "item_size": "1..2 / 1..3",
               "items_per_file": "1..array_len+2", "index": "all integers (unbounded symbolic)",
               "slice": "start/stop in -(len+2)..len+2 or None, step in {None,-3..3}",
               "values": "short / exact / oversized bytes, bytearray, str, int"},
    "outside_bounds": "arrays longer than the bound, item contents (the code never branches on them; kept concrete "
                      "because file I/O realises them), sequences longer than 2 operations (covered by induction "
                      "over the reachable pre-states only)",
    "stubs": [],
    "assumptions": ["POSIX file semantics of the scratch directory", "CrossHair's int/slice/list models (each "
                    "counterexample is replayed natively before being reported)"],
    "functions": ["data_persistence.persistent_array.SPFLBArray.*",
                  "data_persistence.persistent_array.SimpleMultiFilePersistentFixedLengthBytesArray.*",
                  "data_persistence.interfaces.PersistentFixedLengthBytesArray.__delitem__/clear/__iter__"],
}

_CTR = [0]


def _mkdir(P):
    _CTR[0] += 1
    d = os.path.join(P["_scratch"], "a%d" % _CTR[0])
    os.mkdir(d)
    return d


def _cell(i, size):
    return bytes([(17 * i + 3 + j) % 255 + 1 for j in range(size)])


def _pad(v, size):
    return b"\x00" * (size - len(v)) + bytes(v)


OPS = ["get", "set", "getslice", "setslice", "del", "delslice", "clear", "contains", "iter", "len", "reopen"]


def _opt_int(S, name, lo, hi):
    """None or an int in lo..hi (symbolic)"""
    if S.bool(name + "_none"):
        return None
    return S.int(name, lo, hi)


P_NV = [None]     # set by h_step from P["nvs"] (partitioning of the slice-assignment obligations)
_KINDS = ["exact", "empty", "short", "oversized", "bytearray", "str", "int"]


def _mkvalue(kind, size):
    """(python value, valid?)"""
    if kind == "exact":
        return bytes([0xA0 + j for j in range(size)]), True
    if kind == "empty":
        return b"", True
    if kind == "short":
        return bytes([0xB1] * (size - 1)), True
    if kind == "oversized":
        return bytes([0xC2] * (size + 1)), False
    if kind == "bytearray":
        return bytearray([0xD3] * size), True
    if kind == "str":
        return "s" * size, False
    return 7, False


def _value(S, name, size, kinds=None):
    return _mkvalue(S.choice(name + "_kind", kinds or _KINDS), size)


def _norm(i, n):
    """reference index normalisation by explicit forking: concrete position 0..n-1, or None if out of
    range (one path covers ALL out-of-range integers; indexing the model list directly with an unbounded
    symbolic int would make CrossHair enumerate the integers)"""
    if i >= n or i < -n:
        return None
    for k in range(n):
        if i == k or i == k - n:
            return k
    return None


def _apply(arr, model, n, size, S, op, tag, kinds=None):
    """runs one operation on arr and on the model; returns None if consistent else a failure tag"""
    exp_exc = False
    got_exc = None
    obs = exp = None
    if op == "get":
        i = S.int(tag + "i", None, None)
        k = _norm(i, n)
        if k is None:
            exp_exc = True
        else:
            exp = model[k]
        try:
            obs = arr[i]
        except IndexError as e:
            got_exc = e
    elif op == "set":
        i = S.int(tag + "i", None, None)
        v, valid = _value(S, tag + "v", size, kinds)
        k = _norm(i, n)
        if k is None or not valid:
            exp_exc = True
        else:
            model[k] = _pad(v, size)
        try:
            arr[i] = v
        except (IndexError, TypeError, ValueError) as e:
            got_exc = e
    elif op in ("getslice", "delslice", "setslice"):
        a = _opt_int(S, tag + "a", -(n + 2), n + 2)
        b = _opt_int(S, tag + "b", -(n + 2), n + 2)
        c = _opt_int(S, tag + "c", -3, 3)
        if c == 0:
            exp_exc = True
        if op == "getslice":
            if not exp_exc:
                exp = [model[k] for k in range(*slice(a, b, c).indices(n))]
            try:
                obs = arr[a:b:c]
            except ValueError as e:
                got_exc = e
        elif op == "delslice":
            if not exp_exc:
                for k in range(*slice(a, b, c).indices(n)):
                    model[k] = b"\x00" * size
            try:
                del arr[a:b:c]
            except ValueError as e:
                got_exc = e
        else:
            # up to 3 values with at most one invalid one at a symbolic position; the kind of the good and
            # of the bad values alternates with the position so every kind occurs
            nv = S.choice(tag + "nv", P_NV[0] or [0, 1, 2, 3])
            bad = S.pick(tag + "bad", -1, nv - 1)
            vals, ok = [], []
            for j in range(nv):
                kind = ("oversized", "str", "int")[j] if j == bad else ("exact", "short", "bytearray")[j]
                v, valid = _mkvalue(kind, size)
                vals.append(v)
                ok.append(valid)
            if not exp_exc:
                idxs = list(range(*slice(a, b, c).indices(n)))
                m = min(len(idxs), nv)
                if all(ok[:m]):
                    for k in range(m):
                        model[idxs[k]] = _pad(vals[k], size)
                else:
                    exp_exc = True
            try:
                arr[a:b:c] = vals
            except (TypeError, ValueError) as e:
                got_exc = e
    elif op == "del":
        i = S.int(tag + "i", None, None)
        k = _norm(i, n)
        if k is not None:
            model[k] = b"\x00" * size
        else:
            exp_exc = True
        try:
            del arr[i]
        except IndexError as e:
            got_exc = e
    elif op == "clear":
        for k in range(n):
            model[k] = b"\x00" * size
        arr.clear()
    elif op == "contains":
        which = S.pick(tag + "w", 0, n + 1)
        probe = model[which] if which < n else (b"\x00" * size if which == n else b"\xfe" * size)
        exp = probe in model
        obs = probe in arr
    elif op == "iter":
        exp = list(model)
        obs = list(arr)
    elif op == "len":
        exp, obs = n, len(arr)
    if exp_exc != (got_exc is not None):
        return "exception-mismatch:%s exp_exc=%s got=%r" % (op, exp_exc, got_exc)
    if obs != exp:
        return "observation:%s" % op
    return None


def _build(P, S, d):
    """pre-state through the public API; returns (arr|None if closed, path, model, n, size, per)"""
    from data_persistence.persistent_array import SPFLBArray
    n = P["n"]
    size = S.choice("size", P.get("sizes", [1, 2]))
    per = S.choice("per", P.get("pers") or list(range(1, n + 3)))
    path = os.path.join(d, "a")
    fill = S.choice("fill", P.get("fills", [0, 1, 2]))   # 0 none written, 1 all written, 2 every other cell
    model = [b"\x00" * size for _ in range(n)]
    arr = SPFLBArray.create(path, item_size=size, array_len=n, item_num_in_one_file=per)
    for i in range(n):
        if fill == 1 or (fill == 2 and i % 2 == 0):
            arr[i] = _cell(i, size)
            model[i] = _cell(i, size)
    pre = S.choice("pre", P.get("pres", [0, 1, 2, 3]))   # 0 as is, 1 reopened, 2 reopened + one chunk touched, 3 closed
    if pre >= 1:
        arr.close()
        if pre == 3:
            return None, arr, path, model, n, size, per
        arr = SPFLBArray.open(path)
        if pre == 2:
            j = S.pick("touch", 0, n - 1)
            if arr[j] != model[j]:
                return "pre", arr, path, model, n, size, per
    return "open", arr, path, model, n, size, per


def _listing_ok(d, n, per):
    allowed = {"a_meta"} | {"a_%d" % k for k in range((n + per - 1) // per)}
    return set(os.listdir(d)) <= allowed


def h_step(P, S):
    from data_persistence.persistent_array import SPFLBArray
    d = _mkdir(P)
    arr = None
    try:
        st, arr, path, model, n, size, per = _build(P, S, d)
        if st == "pre":
            return S.fail("pre-state-read")
        op = P["op"]
        P_NV[0] = P.get("nvs")
        if st is None:
            # closed array: every operation must raise ValueError
            try:
                if op == "get":
                    arr[0]
                elif op == "set":
                    arr[0] = b"\x01" * size
                elif op == "getslice":
                    arr[0:1]
                elif op == "setslice":
                    arr[0:1] = [b"\x01" * size]
                elif op == "del":
                    del arr[0]
                elif op == "delslice":
                    del arr[0:1]
                elif op == "clear":
                    arr.clear()
                elif op == "contains":
                    b"\x00" * size in arr
                elif op == "iter":
                    list(arr)
                elif op == "len":
                    len(arr)
                else:
                    return True
            except ValueError:
                arr2 = SPFLBArray.open(path)
                ok = list(arr2) == model
                arr2.close()
                return True if ok else S.fail("closed-op-changed-contents")
            return S.fail("closed-op-did-not-raise:" + op)
        if P.get("twin"):
            return False
        if op == "reopen":
            arr.close()
            arr = SPFLBArray.open(path)
            bad = None
        else:
            bad = _apply(arr, model, n, size, S, op, "o")
        if bad:
            return S.fail(bad)
        if list(arr) != model:
            return S.fail("full-read-after:" + op)
        if [arr[k] for k in range(-n, 0)] != model:
            return S.fail("negative-index-read-after:" + op)
        arr.close()
        arr = SPFLBArray.open(path)
        if arr[:] != model or len(arr) != n or arr.item_size != size:
            return S.fail("reopen-after:" + op)
        arr.close()
        if not _listing_ok(d, n, per):
            return S.fail("stray-file:" + ",".join(sorted(os.listdir(d))))
        return True
    finally:
        try:
            if arr is not None:
                arr.close()
        except Exception:
            pass
        shutil.rmtree(d, ignore_errors=True)


def h_seq2(P, S):
    """two symbolic operations in a row (cross-check of the reachable pre-state argument)"""
    from data_persistence.persistent_array import SPFLBArray
    d = _mkdir(P)
    arr = None
    try:
        st, arr, path, model, n, size, per = _build(P, S, d)
        if st != "open":
            return True
        for step in range(2):
            op = S.choice("op%d" % step, ["get", "set", "del", "clear", "reopen"])
            if op == "reopen":
                arr.close()
                arr = SPFLBArray.open(path)
                continue
            bad = _apply(arr, model, n, size, S, op, "s%d" % step, ["exact", "oversized"])
            if bad:
                return S.fail("step%d:%s" % (step, bad))
        if list(arr) != model:
            return S.fail("full-read")
        arr.close()
        arr = SPFLBArray.open(path)
        if arr[:] != model:
            return S.fail("reopen")
        arr.close()
        return True if _listing_ok(d, n, per) else S.fail("stray-file")
    finally:
        try:
            if arr is not None:
                arr.close()
        except Exception:
            pass
        shutil.rmtree(d, ignore_errors=True)


def h_lifecycle(P, S):
    """create over existing / open missing / from_list / release"""
    from data_persistence.persistent_array import SPFLBArray
    d = _mkdir(P)
    try:
        path = os.path.join(d, "a")
        try:
            SPFLBArray.open(path)
            return S.fail("open-missing-accepted")
        except FileNotFoundError:
            pass
        n = S.pick("n", 1, 4)
        per = S.pick("per", 1, 5)
        items = [_cell(i, 1 + i % 2) for i in range(n)]
        arr = SPFLBArray.from_list(items, path, chunk_size=per)
        model = [_pad(x, 2 if n > 1 else 1) for x in items]
        if list(arr) != model:
            return S.fail("from_list")
        try:
            SPFLBArray.create(path, item_size=1, array_len=1, item_num_in_one_file=1)
            return S.fail("create-over-existing-accepted")
        except FileExistsError:
            pass
        arr.close()
        arr = SPFLBArray.open(path)
        if list(arr) != model:
            return S.fail("from_list-reopen")
        arr.release()
        if os.listdir(d):
            return S.fail("release-left-files")
        return True
    finally:
        shutil.rmtree(d, ignore_errors=True)


def obligations(tier, seed):
    obs = []
    q = tier == "quick"
    ns = (2, 3) if q else (1, 2, 3, 4, 5)
    sizes = [1, 2] if q else [1, 2, 3]
    fills = [0, 2] if q else [0, 1, 2]
    budget = 300 if q else 1500
    for op in OPS:
        for n in ns:
            if op == "setslice":
                geo = ([(1, [0, 3]), (3, [0])] if n == 2 else [(2, [0])]) if q else \
                    [(per, [0, 1, 3] if per == 1 else [0, 1]) for per in range(1, n + 3)]
                for per, pres in geo:
                    for nv in (0, 1, 2, 3):
                        obs.append(ob("c19.step.setslice.n%d.per%d.nv%d" % (n, per, nv), "harness.c19", "h_step",
                                      {"op": op, "n": n, "sizes": [1], "pers": [per], "fills": [2], "pres": pres,
                                       "nvs": [nv]}, budget_s=budget))
            elif op in ("getslice", "delslice"):
                # slice arithmetic does not depend on the cell state: small pre-state, one process per chunking
                for per in sorted({1, 2, n + 1} if q else set(range(1, n + 3))):
                    obs.append(ob("c19.step.%s.n%d.per%d" % (op, n, per), "harness.c19", "h_step",
                                  {"op": op, "n": n, "sizes": [1], "pers": [per], "fills": [2],
                                   "pres": [0, 1, 3] if per == 1 else [0, 1]}, budget_s=budget))
            elif op == "set":
                for size in sizes:
                    obs.append(ob("c19.step.set.n%d.size%d" % (n, size), "harness.c19", "h_step",
                                  {"op": op, "n": n, "sizes": [size], "fills": fills}, budget_s=budget))
            else:
                obs.append(ob("c19.step.%s.n%d" % (op, n), "harness.c19", "h_step",
                              {"op": op, "n": n, "sizes": sizes, "fills": fills}, budget_s=budget))
    if not q:   # the property's upper range: a long array with few pre-states
        for op in ("get", "set", "del"):
            for n, pers in ((13, [4, 5]), (40, [7])):
                obs.append(ob("c19.step.%s.n%d" % (op, n), "harness.c19", "h_step",
                              {"op": op, "n": n, "sizes": [1], "pers": pers, "fills": [2], "pres": [0, 1]},
                              budget_s=budget))
    if q:   # one larger geometry whose length is not a multiple of the chunk size
        for op in ("get", "set", "del"):
            obs.append(ob("c19.step.%s.n5.per2" % op, "harness.c19", "h_step",
                          {"op": op, "n": 5, "sizes": [1], "pers": [2, 3], "fills": [2], "pres": [0, 1, 2]},
                          budget_s=budget))
    obs.append(twin("c19.step.twin", "harness.c19", "h_step", {"op": "get", "n": 3, "sizes": [1], "twin": True}))
    for n in ((2, 3) if q else (2, 3, 4)):
        for per in sorted(set((1, n) if q else (1, 2, n, n + 1))):
            obs.append(ob("c19.seq2.n%d.per%d" % (n, per), "harness.c19", "h_seq2",
                          {"n": n, "sizes": [1], "pers": [per], "fills": [2], "pres": [0, 1]},
                          budget_s=400 if q else 1500))
    obs.append(ob("c19.lifecycle", "harness.c19", "h_lifecycle", {}))
    return obs
