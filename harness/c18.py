"""C18 - bit strings behave like fixed-width big-endian bit vectors (toolkit.bits, toolkit.bits_utils)."""
import z3

from harness.common import ob, twin

META = {
    "level": "other",
    "explanation": "SMT queries generated from the source of toolkit.bits.Bitset / toolkit.bits_utils by the BVX "
                   "AST-to-SMT interpreter (/verif/bvx): per (operation, length pair) the operand VALUES are free "
                   "bit-vectors, so one unsat answer covers all 2^la * 2^lb operand pairs; the reference is an "
                   "MSB-first list-of-bits model written as bit-vector terms in the harness. Construction without a "
                   "length goes through a float logarithm, which no solver theory here models: it is decided by "
                   "running the real constructor on the stated finite family (2^k+d and all values < 2^10).",
    "bounds": {"binary ops": "length pairs in 0..6 x 0..6 (quick) / 0..12 x 0..12 plus {31,32,33,63,64,65}^2 (thorough)",
               "unary ops, higher/lower(k), shifts, index/slice/iter": "lengths 0..9, 63..65 (quick) / 0..33, 63..65, "
               "127..129, 255..257, 299, 300", "str/repr": "lengths <= 8",
               "no-length constructor": "values 2^k+d, k in 0..300, d in {-1,0,1}, and all values < 2^10 (native)"},
    "outside_bounds": "other lengths; __setitem__ and from_sequence (not named by the property)",
    "stubs": ["math.log(v, 2) of a symbolic v: sound envelope (floor within [bit_length-2, bit_length]); only ever "
              "feeds an intermediate length that every operator overwrites"],
    "assumptions": ["bit-vector width W = 2*(la+lb)+24 >= every intermediate value of the operators (shifts are by "
                    "concrete amounts <= la+lb)", "translator validated per obligation on random concrete inputs "
                    "against native execution"],
    "functions": ["toolkit.bits.Bitset.*", "toolkit.bits_utils.half_bits", "toolkit.bits_utils.half_bits_not_padding"],
}


def _mask(n):
    return (1 << n) - 1


def _mk(X, name, L):
    from toolkit.bits import Bitset
    v = X.int(name, L)
    b = X.call(Bitset, v, L) if L else X.call(Bitset, 0, 0)
    return v, b


def _is(X, b, L):
    return X.eq(b.length, L)


def h_ctor(P, X):
    """explicit length: value and length kept; a value too wide for the length is refused"""
    from toolkit.bits import Bitset
    from bvx.api import Raised
    L = P["la"]
    v = X.int("v", L + 2)
    try:
        b = X.call(Bitset, v, L)
    except Raised as r:
        if not isinstance(r.exc, ValueError):
            raise
        return X.not_(X.ult(v, 1 << L))
    if P.get("twin"):
        return False
    return X.all(X.ult(v, 1 << L), X.eq(b.value, v), X.eq(b.length, L), X.eq(X.call(int, b), v),
                 X.call(len, b) == L)


def h_copy(P, X):
    from toolkit.bits import Bitset
    L = P["la"]
    v, a = _mk(X, "a", L)
    c = X.call(Bitset, a, L)
    return X.all(X.eq(c.value, v), X.eq(c.length, L))


def h_concat(P, X):
    la, lb = P["la"], P["lb"]
    av, a = _mk(X, "a", la)
    bv, b = _mk(X, "b", lb)
    c = X.op("+", a, b)
    c2 = X.method(a, "concat", b)
    h = X.method(c, "get_higher_bits", la)
    l = X.method(c, "get_lower_bits", lb)
    if P.get("twin"):
        return False
    ref = X.ref(lambda x, y: (x << lb) | y, av, bv)
    return X.all(X.eq(c.length, la + lb), X.eq(c2.length, la + lb), X.eq(c.value, ref), X.eq(c2.value, ref),
                 X.eq(h.length, la), X.eq(l.length, lb), X.eq(h.value, av), X.eq(l.value, bv))


def h_hilo(P, X):
    """higher/lower k bits for every k, refusal beyond the length"""
    from bvx.api import Raised
    L, k = P["la"], P["k"]
    v, a = _mk(X, "a", L)
    outs = []
    for name in ("get_higher_bits", "get_lower_bits"):
        try:
            r = X.method(a, name, k)
        except Raised as e:
            if not isinstance(e.exc, ValueError):
                raise
            if 0 <= k <= L:
                return False
            outs.append(None)
            continue
        if not (0 <= k <= L):
            return False
        outs.append(r)
    if outs[0] is None:
        return outs[1] is None
    hi, lo = outs
    return X.all(X.eq(hi.length, k), X.eq(lo.length, k),
                 X.eq(hi.value, X.ref(lambda x: z3.LShR(x, L - k), v)),
                 X.eq(lo.value, X.ref(lambda x: x & _mask(k), v)))


def h_half(P, X):
    from toolkit.bits_utils import half_bits, half_bits_not_padding
    L = P["la"]
    v, a = _mk(X, "a", L)
    half = (L + 1) // 2
    l1, r1 = X.call(half_bits, a)
    l2, r2 = X.call(half_bits_not_padding, a)
    hi = X.ref(lambda x: z3.LShR(x, half), v)
    lo = X.ref(lambda x: x & _mask(half), v)
    return X.all(X.eq(r1.length, half), X.eq(r2.length, half), X.eq(l2.length, L - half), X.eq(l1.length, half),
                 X.eq(l1.value, hi), X.eq(l2.value, hi), X.eq(r1.value, lo), X.eq(r2.value, lo))


def h_logic(P, X):
    la, lb = P["la"], P["lb"]
    av, a = _mk(X, "a", la)
    bv, b = _mk(X, "b", lb)
    m = max(la, lb)
    r_and = X.op("&", a, b)
    r_or = X.op("|", a, b)
    r_xor = X.op("^", a, b)
    if P.get("twin"):
        return False
    return X.all(X.eq(r_and.length, m), X.eq(r_or.length, m), X.eq(r_xor.length, m),
                 X.eq(r_and.value, X.ref(lambda x, y: x & y, av, bv)),
                 X.eq(r_or.value, X.ref(lambda x, y: x | y, av, bv)),
                 X.eq(r_xor.value, X.ref(lambda x, y: x ^ y, av, bv)))


def h_invert(P, X):
    L = P["la"]
    v, a = _mk(X, "a", L)
    r = X.invert(a)
    rr = X.invert(r)
    return X.all(X.eq(r.length, L), X.eq(r.value, X.ref(lambda x: (~x) & _mask(L), v)), X.eq(rr.value, v))


def h_shift(P, X):
    L, s = P["la"], P["k"]
    v, a = _mk(X, "a", L)
    l = X.op("<<", a, s)
    r = X.op(">>", a, s)
    return X.all(X.eq(l.length, L), X.eq(r.length, L),
                 X.eq(l.value, X.ref(lambda x: (x << s) & _mask(L), v)),
                 X.eq(r.value, X.ref(lambda x: z3.LShR(x, s), v)))


def h_eq(P, X):
    la, lb = P["la"], P["lb"]
    av, a = _mk(X, "a", la)
    bv, b = _mk(X, "b", lb)
    e = X.cmp("==", a, b)
    want = X.eq(av, bv) if la == lb else False
    e_int = X.cmp("==", a, av)
    return X.all(X.same_bool(e, want), X.same_bool(e_int, True))


def h_bytes(P, X):
    L = P["la"]
    v, a = _mk(X, "a", L)
    out = X.call(bytes, a)
    n = (L + 7) // 8
    got = list(out)
    if len(got) != n:
        return False
    conds = []
    for i in range(n):
        sh = 8 * (n - 1 - i)
        conds.append(X.eq(got[i], X.ref(lambda x, sh=sh: z3.LShR(x, sh) & 255, v)))
    return X.all(*conds)


def h_index(P, X):
    """in-range indexing, slicing, iteration: MSB first"""
    L = P["la"]
    v, a = _mk(X, "a", L)
    conds = []
    full = X.method(a, "__getitem__", slice(None, None, None))
    it = X.call(list, X.method(a, "__iter__")) if L else []
    if len(full) != L:
        return False
    for i in range(L):
        want = X.bit(v, L - 1 - i)
        conds.append(X.same_bool(X.method(a, "__getitem__", i), want))
        conds.append(X.same_bool(full[i], want))
        if L:
            conds.append(X.same_bool(it[i], want))
    for sl in (slice(1, None, 2), slice(None, None, -1), slice(-3, None, None), slice(0, L // 2, None)):
        part = X.method(a, "__getitem__", sl)
        idx = list(range(L))[sl]
        if len(part) != len(idx):
            return False
        for j, i in enumerate(idx):
            conds.append(X.same_bool(part[j], X.bit(v, L - 1 - i)))
    return X.all(*conds)


def h_str(P, X):
    L = P["la"]
    v, a = _mk(X, "a", L)
    s = X.call(str, a)
    r = X.call(repr, a)
    if len(s) != L or r != "Bitset(%s)" % s:
        return False
    conds = []
    for i, ch in enumerate(s):
        conds.append(X.same_bool(X.bit(v, L - 1 - i), ch == "1"))
        if ch not in "01":
            return False
    return X.all(*conds)


def nolen_family(P):
    """native: len(Bitset(v)) == v.bit_length() (0 for v <= 0) on the 2^k+d family and all small values"""
    from toolkit.bits import Bitset
    vals = list(range(0, 1 << 10)) + [-1, -5]
    for k in range(0, 301):
        for d in (-1, 0, 1):
            vals.append((1 << k) + d)
    bad = []
    n = 0
    for v in vals:
        n += 1
        b = Bitset(v)
        want = v.bit_length() if v > 0 else 0
        if len(b) != want or int(b) != v:
            bad.append({"args": {"v": str(v)}, "tag": "nolen-length",
                        "detail": "len(Bitset(%d)) == %d, minimal width is %d" % (v, len(b), want)})
    for n_bytes, raw in ((1, b"\x05"), (2, b"\x00\x81"), (3, b"\xff\x00\x01"), (0, b"")):
        b = Bitset(raw, 8 * n_bytes) if n_bytes else Bitset(raw)
        n += 1
        if int(b) != int.from_bytes(raw, "big") or (n_bytes and len(b) != 8 * n_bytes):
            bad.append({"args": {"raw": raw.hex()}, "tag": "ctor-bytes", "detail": "Bitset(bytes) wrong"})
        try:
            Bitset(raw, 1) if raw not in (b"", ) and int.from_bytes(raw, "big") > 1 else None
            if raw not in (b"",) and int.from_bytes(raw, "big") > 1:
                bad.append({"args": {"raw": raw.hex()}, "tag": "ctor-bytes-too-wide-accepted", "detail": ""})
        except ValueError:
            pass
    for junk in ("01", 1.5, None, [1]):
        n += 1
        try:
            Bitset(junk)
            bad.append({"args": {"v": repr(junk)}, "tag": "ctor-non-int-accepted", "detail": repr(junk)})
        except ValueError:
            pass
    return n, bad, [{"family": "2^k+d, k<=300, d in -1..1; 0..1023", "values": n}]


def _W(la, lb=0):
    return 2 * (la + lb) + 24


def obligations(tier, seed):
    obs = []
    q = tier == "quick"
    unary = list(range(0, 10)) + [63, 64, 65] if q else list(range(0, 34)) + [63, 64, 65, 127, 128, 129, 255, 256, 257, 299, 300]
    if q:
        pairs = [(a, b) for a in range(0, 7) for b in range(0, 7)] + [(8, 8), (64, 65)]
    else:
        big = [31, 32, 33, 63, 64, 65]
        pairs = [(a, b) for a in range(0, 13) for b in range(0, 13)] + [(a, b) for a in big for b in big] + [(100, 27), (300, 300)]
    M = "harness.c18"

    def add(name, func, params, **kw):
        params = dict(params)
        params.setdefault("W", _W(params.get("la", 0), params.get("lb", 0)))
        params["seed"] = seed
        obs.append(ob(name, M, func, params, engine="bvx", budget_s=kw.pop("budget_s", 300), per_path_s=120, **kw))
    for la, lb in pairs:
        add("c18.concat.%d.%d" % (la, lb), "h_concat", {"la": la, "lb": lb})
        add("c18.logic.%d.%d" % (la, lb), "h_logic", {"la": la, "lb": lb})
        if la <= 12 and lb <= 12:
            add("c18.eq.%d.%d" % (la, lb), "h_eq", {"la": la, "lb": lb})
    for L in unary:
        if L >= 1:
            add("c18.ctor.%d" % L, "h_ctor", {"la": L})
        add("c18.copy.%d" % L, "h_copy", {"la": L})
        add("c18.half.%d" % L, "h_half", {"la": L})
        add("c18.invert.%d" % L, "h_invert", {"la": L})
        add("c18.bytes.%d" % L, "h_bytes", {"la": L})
        ks = sorted({-1, 0, 1, L // 2, max(L - 1, 0), L, L + 1}) if (q or L > 12) else list(range(-1, L + 2))
        for k in ks:
            add("c18.hilo.%d.k%d" % (L, k), "h_hilo", {"la": L, "k": k})
        for s in sorted({0, 1, L // 2, L, L + 1}):
            add("c18.shift.%d.s%d" % (L, s), "h_shift", {"la": L, "k": s, "W": 3 * L + 40})
        if L <= 33:
            add("c18.index.%d" % L, "h_index", {"la": L})
        if L <= (6 if q else 8):
            add("c18.str.%d" % L, "h_str", {"la": L}, max_paths=3000)
    obs.append(twin("c18.concat.twin", M, "h_concat", {"la": 3, "lb": 2, "W": 34, "twin": True}, engine="bvx"))
    obs.append(twin("c18.logic.twin", M, "h_logic", {"la": 3, "lb": 2, "W": 34, "twin": True}, engine="bvx"))
    obs.append(ob("c18.nolen.family", M, "nolen_family", {}, engine="native"))
    return obs
