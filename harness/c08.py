"""C08 - a configuration is either refused loudly or yields a correct scheme."""
import copy

from harness import pipeline as PL
from harness.common import ob, twin

META = {
    "level": "other",
    "explanation": "bounded symbolic execution (CrossHair/z3) of SSEConfig -> SSEScheme -> KeyGen -> EDBSetup -> TokenGen "
                   "-> Search under ideal primitives for configuration dictionaries in which a GROUP of fields (every "
                   "single numeric field, and every pair of length fields that the schemes tie together) takes "
                   "solver-chosen values from the property's grid of in-range, boundary and invalid values, every "
                   "primitive name is varied and every single field is deleted; identifier bytes of the database are "
                   "symbolic. On every path: an exception was raised somewhere in the chain, or every stored keyword "
                   "and an absent keyword are answered correctly; a missing required parameter must raise inside "
                   "SSEConfig.",
    "bounds": {"length fields": "{8,16,20,24,32,48} plus invalid {0,-1,2.5,'16'}", "block/capacity fields":
               "{1,2,3,4,8} plus {0,-1}", "locality": "{1,2,3} plus {0}", "ratio": "{0.2,0.5,1.0,0,1.5}",
               "database": "lists of 1, 3 and 4 postings (2 for capacity-limited schemes), identifier size from the "
                           "configuration when it is valid"},
    "outside_bounds": "simultaneous variation of more than two fields; larger values",
    "stubs": ["as C01 (ideal primitives)"],
    "assumptions": ["ideal primitives (the real AES/HMAC length contracts are enforced by the repository's own "
                    "wrappers and by the stub's key-size check)"],
    "functions": ["schemes.*.config.*Config._parse_config", "schemes.interface.config.SSEConfig.check_param_exist",
                  "toolkit.prf.get_prf_implementation", "toolkit.prp.get_prp_implementation",
                  "toolkit.symmetric_encryption.get_symmetric_encryption_implementation",
                  "toolkit.hash.get_hash_implementation", "schemes.*.construction.*"],
}

prepare = PL.prepare

LEN = [8, 16, 20, 24, 32, 48, 0, -1, 2.5, "16"]
LEN_OK = [8, 16, 20, 24, 32, 48]
BLK = [1, 2, 3, 4, 8, 0, -1]
FIELDS = {
    "CJJ14.PiBas": {"param_lambda": LEN, "prf_f_output_length": LEN},
    "CJJ14.PiPack": {"param_lambda": LEN, "prf_f_output_length": LEN, "param_B": BLK, "param_identifier_size": [1, 2, 3, 0, -1]},
    "CJJ14.PiPtr": {"param_lambda": LEN, "prf_f_output_length": LEN, "param_B": BLK, "param_b": BLK,
                    "param_identifier_size": [1, 2, 3, 0, -1]},
    "CJJ14.Pi2Lev": {"param_lambda": LEN, "prf_f_output_length": LEN, "param_B": BLK, "param_b": BLK,
                     "param_B_prime": BLK, "param_b_prime": BLK, "param_identifier_size": [1, 2, 3, 0, -1]},
    "CT14.Pi": {"param_k": LEN, "param_k_prime": LEN, "param_l": LEN, "param_identifier_size": [1, 2, 3, 0, -1]},
    "ANSS16.Scheme3": {"param_lambda": LEN, "param_k": LEN, "param_k_prime": LEN, "param_l": LEN, "param_l_prime": LEN,
                       "param_identifier_size": [1, 2, 3, 0, -1]},
    "DP17.Pi": {"param_lambda": LEN, "param_L": [1, 2, 3, 0], "param_actual_storage_level_ratio": [0.2, 0.5, 1.0, 0, 1.5],
                "param_identifier_size": [1, 2, 3, 0, -1]},
    "CGKO06.SSE1": {"param_k": LEN, "param_l": [1, 2, 4, 8, 0, -1], "param_s": [8, 16, 32, 12, 1, 0],
                    "param_dictionary_size": [4, 8, 1, 0], "param_identifier_size": [1, 2, 3, 0, -1]},
    "CGKO06.SSE2": {"param_k": LEN, "param_l": [1, 2, 4, 8, 0], "param_n": [1, 4, 8, 0], "param_max_file_size": [4, 8, 1, 0],
                    "param_identifier_size": [1, 2]},
}
PAIRS = {
    "CJJ14.PiBas": [("param_lambda", "prf_f_output_length")],
    "CJJ14.PiPack": [("param_lambda", "prf_f_output_length")],
    "CJJ14.PiPtr": [("param_lambda", "prf_f_output_length"), ("param_B", "param_b")],
    "CJJ14.Pi2Lev": [("param_lambda", "prf_f_output_length"), ("param_B", "param_b"), ("param_B_prime", "param_b_prime"),
                     ("param_B", "param_B_prime"), ("param_b", "param_b_prime")],
    "CT14.Pi": [("param_k", "param_k_prime"), ("param_k", "param_l"), ("param_k_prime", "param_l")],
    "ANSS16.Scheme3": [("param_lambda", "param_k"), ("param_k", "param_k_prime"), ("param_l", "param_l_prime"),
                       ("param_k", "param_l"), ("param_k_prime", "param_l_prime"), ("param_k", "param_l_prime"),
                       ("param_k_prime", "param_l"), ("param_lambda", "param_l")],
    "DP17.Pi": [("param_L", "param_actual_storage_level_ratio")],
    "CGKO06.SSE1": [("param_k", "param_l"), ("param_s", "param_dictionary_size")],
    "CGKO06.SSE2": [("param_k", "param_l"), ("param_n", "param_max_file_size")],
}
NAMES = {
    "prf_f": ["HmacPRF", "hmac-prf", "HMAC_PRF", "NoSuchPRF", ""],
    "prf_f_prime": ["HmacPRF", "NoSuchPRF"],
    "prf": ["HmacPRF", "hmacprf", "NoSuchPRF"],
    "ske": ["AES-CBC", "aes_cbc", "AESCBC", "DES", ""],
    "ske1": ["AES-CBC", "DES"],
    "ske2": ["AES-CBC", "DES"],
    "rnd": ["AES-CBC", "aescbc", "DES"],
    "prp_pi": ["BitwiseFPEPRP", "bitwise-fpe-prp", "HmacLubyRackoffPRP", "NoSuchPRP"],
    "prp_psi": ["BitwiseFPEPRP", "bitwise_fpe_prp", "LubyRackoffPRP", "NoSuchPRP"],
    "hash_h": ["SHA1", "sha256", "md5", "sha512", "shake_128", "shake_256", "nosuchhash"],
}


def _db_for(P, S, scheme, cfg):
    """a database that is valid FOR THIS configuration (identifier size, keyword-length limit, SSE-1 array
    capacity, SSE-2 file count); contents concrete - the configuration is the subject here"""
    ids = cfg.get("param_identifier_size", 1)
    size = ids if (isinstance(ids, int) and not isinstance(ids, bool) and 1 <= ids <= 3) else 1
    lens = [1, 3, 4]
    if scheme == "CGKO06.SSE1":
        lens = [1, 2]
    if scheme == "DP17.Pi":
        lens = [2, 5, 9]          # a list that spans several chunks when locality > 1
    lim = cfg.get("param_l") if scheme in ("CGKO06.SSE1", "CGKO06.SSE2") else None
    kws = []
    for k in PL.KEYWORDS:
        k = k[:lim] if isinstance(lim, int) and lim > 0 else k
        if k and k not in kws:
            kws.append(k)
    pool = [(((j + 1) * 37 + 11) % (256 ** size - 1) + 1).to_bytes(size, "big") for j in range(16)]
    if scheme == "CGKO06.SSE2":
        n = cfg.get("param_n")
        cap = n if (isinstance(n, int) and not isinstance(n, bool) and n >= 1) else 4
        pool = pool[:max(1, min(cap, 8))]
        return {kws[i]: pool[:min(L, len(pool))] for i, L in enumerate(lens) if i < len(kws)}
    db, c = {}, 0
    for i, L in enumerate(lens):
        if i >= len(kws):
            break
        db[kws[i]] = pool[c:c + L]
        c += L
    return db


def _run(P, S, scheme, cfg):
    """returns None if refused loudly, else a failure tag or 'ok'"""
    from schemes import load_sse_module
    mod = load_sse_module(scheme)
    try:
        db = _db_for(P, S, scheme, cfg)
    except Exception:
        return None, "db"
    stage = "config"
    try:
        mod.SSEConfig(cfg)
        stage = "scheme"
        s = mod.SSEScheme(cfg)
        stage = "keygen"
        K = s.KeyGen()
        stage = "setup"
        edb = s.EDBSetup(K, db)
        stage = "search"
        results = {}
        for w in list(db.keys()) + [b"zq"]:
            results[w] = PL.as_list(scheme, s.Search(edb, s.TokenGen(K, w)))
    except Exception:
        return None, stage
    for w, got in results.items():
        if not PL.same(scheme, got, db.get(w, [])):
            return "silent-wrong-result", stage
    return "ok", stage


def h_fields(P, S):
    scheme = P["scheme"]
    PL.begin(P)
    cfg = PL.small_config(scheme, None)
    chosen = {}
    for f in P["vary"]:
        grid = FIELDS[scheme][f]
        v = grid[S.pick("v_" + f, 0, len(grid) - 1)]
        cfg[f] = v
        chosen[f] = v
    if P.get("twin"):
        return False
    r, stage = _run(P, S, scheme, cfg)
    if r == "silent-wrong-result":
        return S.fail("silent-wrong-result:%s" % ",".join("%s=%r" % kv for kv in sorted(chosen.items(), key=str)))
    return True


def h_names(P, S):
    scheme = P["scheme"]
    PL.begin(P)
    cfg = PL.small_config(scheme, None)
    f = P["field"]
    names = NAMES[f]
    cfg[f] = names[S.pick("name", 0, len(names) - 1)]
    r, stage = _run(P, S, scheme, cfg)
    if r == "silent-wrong-result":
        return S.fail("silent-wrong-result:%s=%r" % (f, cfg[f]))
    return True


def h_delete(P, S):
    """a configuration lacking a parameter the scheme needs is refused when the configuration is built"""
    scheme = P["scheme"]
    PL.begin(P)
    from schemes import load_sse_module
    mod = load_sse_module(scheme)
    cfg = PL.small_config(scheme, None)
    if scheme == "CGKO06.SSE2":
        cfg["param_n"] = 4
    keys = [k for k in cfg if k != "scheme"]
    k = keys[S.pick("del", 0, len(keys) - 1)]
    needed = P["needed"]
    del cfg[k]
    try:
        mod.SSEConfig(cfg)
    except Exception:
        return True
    if k in needed:
        return S.fail("missing-%s-accepted-by-SSEConfig" % k)
    r, stage = _run(P, S, scheme, cfg)
    return True if r != "silent-wrong-result" else S.fail("silent-wrong-result-without-%s" % k)


NEEDED = {
    "CJJ14.PiBas": ["param_lambda", "prf_f_output_length", "prf_f", "ske"],
    "CJJ14.PiPack": ["param_lambda", "param_B", "prf_f_output_length", "param_identifier_size", "prf_f", "ske"],
    "CJJ14.PiPtr": ["param_lambda", "param_B", "param_b", "prf_f_output_length", "param_identifier_size", "prf_f", "ske"],
    "CJJ14.Pi2Lev": ["param_lambda", "param_B", "param_b", "param_B_prime", "param_b_prime", "prf_f_output_length",
                     "param_identifier_size", "prf_f", "ske"],
    "CT14.Pi": ["param_k", "param_k_prime", "param_l", "param_identifier_size", "prf_f", "prf_f_prime", "ske"],
    "ANSS16.Scheme3": ["param_lambda", "param_k", "param_k_prime", "param_l", "param_l_prime", "param_identifier_size",
                       "prf", "ske"],
    "DP17.Pi": ["param_lambda", "param_actual_storage_level_ratio", "param_L", "param_identifier_size", "rnd", "prf_f",
                "hash_h"],
    "CGKO06.SSE1": ["param_k", "param_l", "param_s", "param_dictionary_size", "param_identifier_size", "prp_pi", "prp_psi",
                    "prf_f", "ske1", "ske2"],
    "CGKO06.SSE2": ["param_k", "param_l", "param_n", "param_max_file_size", "prp_pi", "ske"],
}


def obligations(tier, seed):
    obs = []
    q = tier == "quick"
    for scheme in PL.SCHEMES:
        for f in FIELDS[scheme]:
            obs.append(ob("c08.%s.field.%s" % (scheme, f), "harness.c08", "h_fields",
                          {"scheme": scheme, "vary": [f], "seed": seed}, budget_s=400))
        pairs = PAIRS[scheme] if not q else PAIRS[scheme][:4]
        for a, b in pairs:
            obs.append(ob("c08.%s.pair.%s.%s" % (scheme, a, b), "harness.c08", "h_fields",
                          {"scheme": scheme, "vary": [a, b], "seed": seed}, budget_s=600))
        cfg_keys = NEEDED[scheme]
        for f in cfg_keys:
            if f in NAMES:
                obs.append(ob("c08.%s.name.%s" % (scheme, f), "harness.c08", "h_names",
                              {"scheme": scheme, "field": f, "vary": [], "seed": seed}, budget_s=400))
        obs.append(ob("c08.%s.delete" % scheme, "harness.c08", "h_delete",
                      {"scheme": scheme, "needed": NEEDED[scheme], "vary": [], "seed": seed}, budget_s=400))
    obs.append(twin("c08.twin", "harness.c08", "h_fields", {"scheme": "CJJ14.PiBas", "vary": ["param_lambda"], "twin": True}))
    return obs
