"""C09 - end to end: results delivered through client and server equal the local answer."""
import copy

from harness import frontend as FE
from harness import c11 as W
from harness import c13 as R
from harness import pipeline as PL
from harness.common import ob, twin

META = {
    "level": "other",
    "explanation": "bounded symbolic execution (CrossHair/z3) of the documented workflow (create service, generate key, "
                   "encrypt, upload configuration, upload index, search) with the REAL client Service talking to the "
                   "REAL server connector/ServicesManager/Service for every scheme, every client step run by a client "
                   "object freshly loaded from the file system, and the server restarted at a solver-chosen point of "
                   "the workflow; the JSON database goes through the real utf-8/hex conversion and the delivered "
                   "result bytes through the real result deserialiser and output converter; for every stored and an "
                   "absent keyword the delivered result must equal the posting list. The only replaced parts are the "
                   "transport (websockets library -> in-memory pair wired to connector.handler), asyncio (cooperative "
                   "runtime) and the file system (in-memory model): the claim is about the composition of the "
                   "repository's client and server code, not about the websockets library or TCP.",
    "bounds": {"schemes": "all nine, small block parameters", "database": "3 keywords (utf-8 incl. a non-ASCII one), "
               "1-4 hex identifiers each", "server restart": "before any of the 5 workflow steps, before the searches, "
               "or never (solver-chosen)", "client": "re-created from disk before every step; searches through fresh client objects or all through one", "keyword sequences": "each keyword once in two orders, and a 7-request sequence repeating present and absent keywords", "cleanup delays": "separate obligation: before each of the 8 client steps a solver-chosen number of the pending "
               "server cleanup delays expires (PiBas; thorough: three schemes)", "pace": "every step after the server's cleanup delays expired, or immediately (restart then drops the pending cleanups)"},
    "outside_bounds": "the websockets library, sockets, real event-loop timing; larger databases",
    "stubs": ["websockets.client.connect -> in-memory pair", "asyncio -> env/aio.py", "file managers -> env/memfs.py",
              "loggers silenced"],
    "assumptions": ["the transport delivers frames in order and closes a connection whose handler ended (what the "
                    "websockets library documents)"],
    "functions": ["frontend.client.services.service.Service.*", "frontend.server.connector.handler",
                  "frontend.server.services.services_manager.ServicesManager.*", "frontend.server.services.service.Service.*",
                  "toolkit.database_utils.convert_database_keyword_to_bytes", "toolkit.bytes_utils.BytesConverter.*",
                  "schemes.*"],
}

prepare = W.prepare
JSON_DB = {"kw": ["0a01", "0a02", "0a03"], "café": ["0b01"], "z": ["0c01", "0a01", "0c03", "0c04"]}


def _cfg(scheme):
    cfg = PL.small_config(scheme, None)
    if "param_identifier_size" in cfg:
        cfg["param_identifier_size"] = 2
    if scheme == "CGKO06.SSE1":
        cfg.update(param_l=8, param_s=32, param_dictionary_size=4)
    if scheme == "CGKO06.SSE2":
        cfg.update(param_l=8, param_n=7, param_max_file_size=8)
    return cfg


def h_e2e(P, S):
    from toolkit.database_utils import convert_database_keyword_to_bytes
    from toolkit.bytes_utils import BytesConverter
    scheme = P["scheme"]
    fs, rt = W._world()
    db = convert_database_keyword_to_bytes(copy.deepcopy(JSON_DB))
    restart_at = S.pick("restart_at", 0, 6)          # 6 = never
    # pace: True = every operation (and the restart) waits until the server's cleanup delays have expired;
    # False = the next operation / the restart comes at once (pending cleanups run late, or never if the server
    # process is stopped before they fire)
    settle = S.bool("settled")
    sid = ""
    steps = [("create", _cfg(scheme)), ("genkey", None), ("encrypt", db), ("upload_config", None), ("upload_db", None)]
    for i, (op, arg) in enumerate(steps):
        if restart_at == i:
            rt = R._restart()
        out, sid = W._run_op(fs, rt, sid, op, arg, settle=settle)
        if out != "ok":
            return S.fail("step-%s-%s" % (op, out))
    if restart_at == 5:
        rt = R._restart()
    if P.get("twin"):
        return False
    words = list(JSON_DB.keys()) + ["absent"]
    order = S.pick("order", 0, 2)
    if order == 1:
        words.reverse()
    elif order == 2:                                  # a sequence that repeats present and absent keywords
        words = [words[0], words[1], words[0], "absent", words[2], "absent", words[0]]
    one_client = S.bool("one_client")                 # all searches through ONE client object / connection
    n = len(W.WORLD["results"])
    if one_client:
        out, _ = W._run_op(fs, rt, sid, "searches", [w.encode("utf-8") for w in words], settle=settle)
        if out != "ok":
            return S.fail("search-%s" % out)
    else:
        for w in words:
            out, _ = W._run_op(fs, rt, sid, "search", w.encode("utf-8"), settle=settle)
            if out != "ok":
                return S.fail("search-%s" % out)
    got = W.WORLD["results"][n:]
    if len(got) != len(words):
        return S.fail("search-delivered-%d-results-for-%d-requests" % (len(got), len(words)))
    for w, (gw, res) in zip(words, got):
        if gw != w.encode("utf-8"):
            return S.fail("result-delivered-to-the-wrong-request")
        delivered = [BytesConverter.convert_bytes(x, "hex") for x in res]
        want = [h.lower() for h in JSON_DB.get(w, [])]
        if scheme == "DP17.Pi":
            if sorted(delivered) != sorted(want):
                return S.fail("delivered-result-differs")
        elif delivered != want:
            return S.fail("delivered-result-differs")
    return True


def h_pace(P, S):
    """the server's cleanup delays of closed connections as schedulable events: before every client step a
    solver-chosen number of the pending delays (oldest first) expires, the others stay pending - so a cleanup may
    run long after later connections have come and gone.  No restart; every step by a fresh client object."""
    from toolkit.database_utils import convert_database_keyword_to_bytes
    from toolkit.bytes_utils import BytesConverter
    scheme = P["scheme"]
    fs, rt = W._world()
    db = convert_database_keyword_to_bytes(copy.deepcopy(JSON_DB))
    sid = ""
    words = ["kw", "absent", "z"]
    steps = [("create", _cfg(scheme)), ("genkey", None), ("encrypt", db), ("upload_config", None), ("upload_db", None)]
    steps += [("search", w.encode("utf-8")) for w in words]
    if P.get("twin"):
        return False
    trace = []
    for i, (op, arg) in enumerate(steps):
        pend = rt.pending_sleeps()
        if pend:
            k = S.pick("expire%d" % i, 0, len(pend))
            for f in pend[:k]:
                f.set_result()
                rt.run_until_idle()
            trace.append("%d/%d" % (k, len(pend)))
        n = len(W.WORLD["results"])
        out, sid = W._run_op(fs, rt, sid, op, arg, settle=False)
        if out != "ok":
            return S.fail("step-%s-%s|expired before each step: %s" % (op, out, " ".join(trace)))
        if op == "search":
            got = W.WORLD["results"][n:]
            if len(got) != 1:
                return S.fail("search-delivered-%d-results" % len(got))
            delivered = [BytesConverter.convert_bytes(x, "hex") for x in got[0][1]]
            want = [h.lower() for h in JSON_DB.get(arg.decode("utf-8"), [])]
            if (sorted(delivered) != sorted(want)) if scheme == "DP17.Pi" else (delivered != want):
                return S.fail("delivered-result-differs")
    return True


def obligations(tier, seed):
    obs = []
    for scheme in PL.SCHEMES:
        obs.append(ob("c09.e2e.%s" % scheme, "harness.c09", "h_e2e", {"scheme": scheme, "seed": seed}, budget_s=600))
    for scheme in (["CJJ14.PiBas"] if tier == "quick" else ["CJJ14.PiBas", "CT14.Pi", "DP17.Pi"]):
        obs.append(ob("c09.pace.%s" % scheme, "harness.c09", "h_pace", {"scheme": scheme, "seed": seed}, budget_s=900))
    obs.append(twin("c09.pace.twin", "harness.c09", "h_pace", {"scheme": "CJJ14.PiBas", "twin": True}))
    obs.append(twin("c09.twin", "harness.c09", "h_e2e", {"scheme": "CJJ14.PiBas", "twin": True}))
    return obs
