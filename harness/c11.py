"""C11 - client workflow: steps out of order are refused and the key is write-once."""
import json
import pickle

from env import aio
from harness import frontend as FE
from harness.common import ob, twin

META = {
    "level": "model_checking",
    "explanation": "the client's workflow is a state machine over five persisted flags and four files. One inductive "
                   "step, executed symbolically (CrossHair/z3) on the real client Service talking to the real server "
                   "ServicesManager/Service through an in-memory websocket pair, the cooperative asyncio runtime and "
                   "the in-memory file-system model: from every reachable persisted state (solver-chosen workflow "
                   "prefix, each operation run by a client object freshly loaded from the file system) one "
                   "solver-chosen operation (six kinds, valid or invalid configuration, keyword) is invoked; "
                   "acceptance, persisted flags, the bytes of every client file (in particular the key) and, after "
                   "completing the workflow, the search results must equal the reference model of "
                   "frontend/README.md. Depth-2/3 sequences cross-check reachability.",
    "bounds": {"pre-states": "9 workflow prefixes (all orders of the documented workflow)", "operations": "create "
               "(valid / scheme-rejected / unknown-scheme config, fresh or existing service), generate-key, "
               "encrypt, upload-config, upload-index, search (present/absent keyword)", "depth": "1 + 2 (quick) / 3"},
    "outside_bounds": "the websockets library / real sockets (C09), concurrent clients (C12), crashes (C13)",
    "stubs": ["client+server file managers over env/memfs.py", "asyncio -> env/aio.py", "websockets.client.connect "
              "-> in-memory pair wired to frontend.server.connector.handler", "loggers silenced"],
    "assumptions": ["real PiBas scheme and real HMAC/AES (concrete data)"],
    "functions": ["frontend.client.services.service.Service.*", "frontend.client.services.service.ClientServiceState.*",
                  "frontend.client.services.file_manager.*", "frontend.server.connector.handler",
                  "frontend.server.services.services_manager.ServicesManager.create_service",
                  "frontend.server.services.service.Service.*"],
}

DB = {b"kw": [b"id000001", b"id000002"], b"other": [b"id000003"]}
CREATED, CFGUP, KEY, ENC, DBUP = 1, 2, 4, 8, 16


class _ConnectionClosed(Exception):
    pass


class _WSShim:
    """stands in for the `websockets` package inside the client service module"""
    ConnectionClosed = _ConnectionClosed

    class client:
        @staticmethod
        async def connect(uri, max_size=None):
            return _connect_pair()


def _connect_pair():
    import frontend.server.connector as CN
    rt = aio.RT
    cws, sws = aio.FakeWS("client"), aio.FakeWS("server")
    cws.peer = sws.feed
    sws.peer = cws.feed
    task = rt.create_task(CN.handler(sws, "/"))

    def _ended(_t):
        # the websockets library closes the connection when the handler coroutine ends (normally or not)
        sws.close_now()
        cws.close_now()
    task.add_done_callback(_ended)
    orig_close = cws.close_now

    def _client_close():
        orig_close()
        sws.close_now()
    cws.close_now = _client_close
    _recv = cws.recv

    async def recv():
        try:
            return await _recv()
        except ConnectionError:
            raise _ConnectionClosed("closed")
    cws.recv = recv
    WORLD["conns"].append((cws, sws, task))
    return cws


WORLD = {}


def prepare(P):
    FE.prepare(P)
    import frontend.server.connector as CN
    SV, SM, CM, SFM, CV, CFM = FE.FIX["mods"]
    CN.logger = getattr(CN, "logger", None)
    CV.websockets = _WSShim


def _world():
    import frontend.server.connector as CN
    SV, SM, CM, SFM, CV, CFM = FE.FIX["mods"]
    fs, rt = FE.world()
    FE.reset_server()
    WORLD.clear()
    WORLD.update(fs=fs, rt=rt, conns=[], results=[])
    return fs, rt


def _client_files(fs, sid):
    base = "/home/.sse/client/" + sid
    return {k: v for k, v in fs.files.items() if k.startswith(base + "/")}


def _flags(fs, sid):
    p = "/home/.sse/client/%s/service_meta" % sid
    if p not in fs.files:
        return 0
    return pickle.loads(fs.files[p])["state"]


def _settle(rt):
    """runs everything, then lets every cleanup delay of closed connections expire"""
    rt.run_until_idle()
    for _ in range(6):
        pend = rt.pending_sleeps()
        if not pend:
            break
        for f in pend:
            f.set_result()
        rt.run_until_idle()


def _run_op(fs, rt, sid, op, arg=None, settle=True):
    """one client operation with a client object freshly loaded from the file system.
    returns (outcome, new_sid): outcome = 'ok' | 'error:<Type>' | 'hang'
    settle=False: the server's cleanup delays of closed connections are NOT awaited afterwards (the next operation
    arrives 'quickly'); a pending delay expires only when nothing else can run.
    op 'searches': arg is a list of keywords, all searched through this one client object / connection."""
    CV = FE.FIX["mods"][4]
    svc = CV.Service(sid)
    new_sid = sid
    res = {"out": None}

    async def go():
        nonlocal new_sid
        if op == "create":
            new_sid = svc.handle_create_config(arg)
        elif op == "genkey":
            svc.handle_create_key()
        elif op == "encrypt":
            svc.handle_encrypt_database(arg)
        elif op == "upload_config":
            await svc.handle_upload_config(wait=True, wait_callback_func=lambda fut: res.__setitem__("ack", pickle.loads(fut.result())))
        elif op == "upload_db":
            await svc.handle_upload_encrypted_database(wait=True, wait_callback_func=lambda fut: res.__setitem__("ack", pickle.loads(fut.result())))
        elif op == "search":
            def cb(fut):
                r = svc.sse_module_loader.SSEResult.deserialize(fut.result(), svc.config_object)
                WORLD["results"].append((arg, r.get_result_list()))
            await svc.handle_keyword_search(arg, wait=True, wait_callback_func=cb)
        elif op == "searches":
            for w in arg:
                def cb(fut, w=w):
                    r = svc.sse_module_loader.SSEResult.deserialize(fut.result(), svc.config_object)
                    WORLD["results"].append((w, r.get_result_list()))
                await svc.handle_keyword_search(w, wait=True, wait_callback_func=cb)
        await svc.close_service()
    t = rt.create_task(go())
    rt.run_until_idle()
    for _ in range(8):                   # blocked behind a cleanup delay: time passes
        pend = rt.pending_sleeps()
        if t.done_ or not pend:
            break
        pend[0].set_result()
        rt.run_until_idle()
    if not t.done_:
        out = "hang"
        for (cws, sws, task) in WORLD["conns"]:
            cws.close_now()
    elif t.error is not None:
        out = "error:" + type(t.error).__name__
        for (cws, sws, task) in WORLD["conns"]:
            cws.close_now()
    else:
        out = "ok"
        ack = res.get("ack")
        if isinstance(ack, dict) and not ack.get("ok", False):
            out = "refused-by-server"
    if settle:
        _settle(rt)
    WORLD["conns"][:] = []
    return out, new_sid


PREFIXES = [
    [],
    ["create"],
    ["create", "genkey"],
    ["create", "upload_config"],
    ["create", "genkey", "upload_config"],
    ["create", "genkey", "encrypt"],
    ["create", "genkey", "encrypt", "upload_config"],
    ["create", "upload_config", "genkey", "encrypt"],
    ["create", "genkey", "encrypt", "upload_config", "upload_db"],
]


def _model_apply(flags, op):
    """reference model of frontend/README.md: (accepted?, new flags)"""
    c, u, k, e, d = (bool(flags & b) for b in (CREATED, CFGUP, KEY, ENC, DBUP))
    if op == "create":
        return (not c), flags | CREATED if not c else flags
    if op == "genkey":
        ok = c and not k
        return ok, flags | KEY if ok else flags
    if op == "encrypt":
        ok = c and k and not e
        return ok, flags | ENC if ok else flags
    if op == "upload_config":
        ok = c and not u
        return ok, flags | CFGUP if ok else flags
    if op == "upload_db":
        ok = u and k and e and not d
        return ok, flags | DBUP if ok else flags
    if op == "search":
        return d, flags
    raise ValueError(op)


def _valid_config():
    from schemes.CJJ14.PiBas.config import DEFAULT_CONFIG
    return dict(DEFAULT_CONFIG)


def _do_prefix(fs, rt, prefix):
    sid, flags = "", 0
    for op in prefix:
        arg = _valid_config() if op == "create" else (dict(DB) if op == "encrypt" else None)
        out, sid = _run_op(fs, rt, sid, op, arg)
        ok, flags = _model_apply(flags, op)
        if out != "ok" or not ok:
            return None, None, "prefix-op-%s-%s" % (op, out)
    return sid, flags, None


def h_step(P, S):
    fs, rt = _world()
    prefix = PREFIXES[S.choice("prefix", P["prefixes"])]
    sid, flags, bad = _do_prefix(fs, rt, prefix)
    if bad:
        return S.fail(bad)
    if _flags(fs, sid) != flags:
        return S.fail("prefix-flags %d vs model %d" % (_flags(fs, sid), flags))
    op = P["op"]
    before_files = _client_files(fs, sid) if sid else {}
    key_before = fs.files.get("/home/.sse/client/%s/key" % sid)
    client_dirs_before = {d for d in fs.dirs if d.startswith("/home/.sse/client/")}
    if P.get("twin"):
        return False
    if op == "create":
        kind = S.choice("cfgkind", ["valid", "rejected-by-scheme", "unknown-scheme", "no-scheme", "config-of-existing-service",
                                    "required-parameter-missing"])
        cfg = _valid_config()
        if kind == "config-of-existing-service":
            # the (salted) configuration file of the service that already exists: same service id, so this would
            # redo the completed create step and reset the service
            if not sid:
                return True
            cfg = json.loads(fs.files["/home/.sse/client/%s/config.json" % sid].decode())
            out, new_sid = _run_op(fs, rt, "", "create", cfg)
            if out == "ok":
                return S.fail("create-with-existing-service-config-accepted")
            if _client_files(fs, sid) != before_files:
                return S.fail("refused-create-changed-files")
            return True
        if kind == "rejected-by-scheme":
            cfg["param_lambda"] = 20            # AES key length 20 is refused by the scheme's configuration
        elif kind == "unknown-scheme":
            cfg["scheme"] = "NoSuch.Scheme"
        elif kind == "no-scheme":
            del cfg["scheme"]
        elif kind == "required-parameter-missing":
            del cfg["prf_f_output_length"]       # the scheme cannot be instantiated from THIS configuration
        target = sid if S.choice("onto", ["fresh", "existing"]) == "existing" and sid else ""
        out, new_sid = _run_op(fs, rt, target, "create", cfg)
        created_dirs = {d for d in fs.dirs if d.startswith("/home/.sse/client/")} - client_dirs_before
        if target:                               # redo on an existing service: refused, nothing changes
            if out == "ok":
                return S.fail("create-on-existing-service-accepted")
            if _client_files(fs, sid) != before_files or created_dirs:
                return S.fail("refused-create-changed-files")
            return True
        if kind == "valid":
            if out != "ok" or _flags(fs, new_sid) != CREATED:
                return S.fail("valid-create-failed:" + out)
            return True
        if out == "ok" or created_dirs:
            return S.fail("invalid-configuration-created-a-service:" + kind)
        return True
    if not sid and op != "create":
        # no service yet: every other operation must be refused and create nothing
        arg = dict(DB) if op == "encrypt" else (b"kw" if op == "search" else None)
        out, _ = _run_op(fs, rt, "", op, arg)
        if out == "ok":
            return S.fail("operation-without-service-accepted:" + op)
        if {d for d in fs.dirs if d.startswith("/home/.sse/client/")} != client_dirs_before:
            return S.fail("refused-operation-created-files")
        return True
    arg = dict(DB) if op == "encrypt" else (S.choice("word", [b"kw", b"absent"]) if op == "search" else None)
    ok, new_flags = _model_apply(flags, op)
    nres = len(WORLD["results"])
    out, _ = _run_op(fs, rt, sid, op, arg)
    if ok != (out == "ok"):
        return S.fail("acceptance:%s flags=%d model=%s got=%s" % (op, flags, ok, out))
    if not ok and not out.startswith("error:"):
        # "refused with an error": the caller must see an exception, not a silent return after the server said no
        return S.fail("not-refused-with-an-error:%s flags=%d got=%s" % (op, flags, out))
    if _flags(fs, sid) != new_flags:
        return S.fail("flags-after-%s:%d expected %d" % (op, _flags(fs, sid), new_flags))
    if not ok and _client_files(fs, sid) != before_files:
        return S.fail("refused-operation-changed-files:" + op)
    if key_before is not None and fs.files.get("/home/.sse/client/%s/key" % sid) != key_before:
        return S.fail("key-bytes-changed-by-" + op)
    if op == "search" and ok:
        got = WORLD["results"][nres:]
        if len(got) != 1 or got[0][1] != DB.get(arg, []):
            return S.fail("search-result")
    # complete the workflow from here: the index built with the (unchanged) key must be searchable
    for nxt in ("genkey", "encrypt", "upload_config", "upload_db"):
        can, f2 = _model_apply(_flags(fs, sid), nxt)
        if can:
            out, _ = _run_op(fs, rt, sid, nxt, dict(DB) if nxt == "encrypt" else None)
            if out != "ok":
                return S.fail("completion-%s-%s" % (nxt, out))
    if _flags(fs, sid) != CREATED | CFGUP | KEY | ENC | DBUP:
        return S.fail("workflow-did-not-complete:%d" % _flags(fs, sid))
    nres = len(WORLD["results"])
    for w in (b"kw", b"other", b"absent"):
        out, _ = _run_op(fs, rt, sid, "search", w)
        if out != "ok":
            return S.fail("final-search-" + out)
    if [r for (_, r) in WORLD["results"][nres:]] != [DB.get(w, []) for w in (b"kw", b"other", b"absent")]:
        return S.fail("final-search-results")
    return True


def hb_bits(P, X):
    """BVX: the five flag helpers are independent set/clear/test operations on ANY 64-bit state word"""
    import frontend.client.services.service as CV
    C = CV.ClientServiceState
    names = ["config_created", "config_uploaded", "key_created", "db_encrypted", "db_uploaded"]
    i, v = P["i"], P["v"]
    w = X.int("w", 64)
    w2 = X.call(getattr(C, "set_" + names[i]), w, v)
    conds = []
    for j in range(5):
        got = X.call(getattr(C, "is_" + names[j]), w2)
        want = v if j == i else X.bit(w, j)
        conds.append(X.same_bool(got, want))
        conds.append(X.same_bool(X.call(getattr(C, "is_" + names[j]), w), X.bit(w, j)))
    import z3
    conds.append(X.eq(X.ref(lambda a: z3.LShR(a, 5), w2), X.ref(lambda a: z3.LShR(a, 5), w)))
    return X.all(*conds)


def h_alias(P, S):
    """service alias registered once: a second registration of the same alias is refused and changes nothing"""
    import json
    import frontend.client.services.service_name_handler as H
    H.read_service_mapping, H.write_service_mapping = H._get_service_mapping_read_and_write_function()
    if H.SERVICE_MAPPING_PATH.exists():
        H.SERVICE_MAPPING_PATH.unlink()
    model = {}
    names = ["alpha", "beta"]
    for step in range(3):
        fresh = S.bool("fresh%d" % step)
        if fresh:       # a new process: the in-memory cache is gone, the file stays
            H.read_service_mapping, H.write_service_mapping = H._get_service_mapping_read_and_write_function()
        name = names[S.pick("n%d" % step, 0, 1)]
        sid = "sid-%d" % step
        try:
            H.record_sname_id_pair(name, sid)
            ok = True
        except KeyError:
            ok = False
        if ok != (name not in model):
            return S.fail("alias-registered-twice" if ok else "fresh-alias-refused")
        if ok:
            model[name] = sid
        for nm in names:
            try:
                got = H.get_service_id_by_sname(nm)
            except KeyError:
                got = None
            if got != model.get(nm):
                return S.fail("alias-lookup")
        on_disk = json.loads(H.SERVICE_MAPPING_PATH.read_text()) if H.SERVICE_MAPPING_PATH.exists() else {}
        if on_disk != model:
            return S.fail("alias-file")
    return True


OPS = ["create", "genkey", "encrypt", "upload_config", "upload_db", "search"]


def obligations(tier, seed):
    obs = []
    for op in OPS:
        for pi in range(len(PREFIXES)):
            obs.append(ob("c11.step.%s.p%d" % (op, pi), "harness.c11", "h_step",
                          {"op": op, "prefixes": [pi], "seed": seed}, budget_s=600))
    for i in range(5):
        for v in (True, False):
            obs.append(ob("c11.bits.%d.%s" % (i, v), "harness.c11", "hb_bits", {"i": i, "v": v, "W": 80, "seed": seed},
                          engine="bvx", selftest=5))
    obs.append(ob("c11.alias", "harness.c11", "h_alias", {"seed": seed}, budget_s=300))
    obs.append(twin("c11.step.twin", "harness.c11", "h_step", {"op": "genkey", "prefixes": [1], "twin": True}))
    return obs
