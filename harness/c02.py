"""C02 - searching a keyword that is not in the database returns an empty result."""
from harness import pipeline as PL
from harness.common import ob, twin

META = {
    "level": "other",
    "explanation": "bounded symbolic execution (CrossHair/z3) of the real TokenGen/Search on an index built by the "
                   "real EDBSetup under ideal primitives; the SEARCHED keyword is a symbolic byte string (all "
                   "keywords of the obligation's length without leading NUL that differ from the stored ones), the "
                   "stored set is adversarial (prefixes/suffixes/near-duplicates of each other). Because PRF/PRP/hash "
                   "are lazy oracles, the path 'different from every earlier oracle query' covers all absent "
                   "keywords at once; near-miss paths are decided separately by z3.",
    "bounds": {"absent keyword": "all byte strings of length 1..4 (quick 1..3) without leading NUL, not stored",
               "stored": "{ab, abc, b} (+ the longest allowed keyword), 1-3 postings each, small configurations",
               "identifier bytes": "symbolic (concrete for SSE-2)"},
    "outside_bounds": "longer absent keywords (the schemes only pass the keyword to the PRF/PRP), hash/PRF "
                      "collisions, DP17's 1/256 chance that a wrong-key decryption unpads",
    "stubs": ["as C01 (ideal primitives)"],
    "assumptions": ["ideal primitives (collision-free oracles; wrong-key decryption fails)"],
    "functions": ["schemes.*.construction.{_Trap,_Search}", "toolkit.prf.hmac_prf.HmacPRF.__call__",
                  "toolkit.prp.bitwise_fpe_prp.BitwiseFPEPRP.__call__", "toolkit.bits.Bitset.__init__"],
}

prepare = PL.prepare

STORED = [b"ab", b"abc", b"b"]


def h_absent(P, S):
    scheme = P["scheme"]
    reps = 3 if P.get("_native") else 1
    for _ in range(reps):
        PL.begin(P)
        cfg = PL.small_config(scheme, P.get("over"))
        stored = list(STORED)
        if "param_l" in cfg:
            stored.append(b"wxyz"[:cfg["param_l"]])
        else:
            stored.append(b"a much longer keyword than the others....")
        db = PL.make_db(P, S, scheme, cfg, P["lens"], keywords=stored)
        L = P["klen"]
        absent = S.bytes("absent", 1, lo=1) + S.bytes("absent_tail", L - 1) if L > 1 else S.bytes("absent", 1, lo=1)
        for w in db:
            if len(w) == L:
                S.assume(absent != w)
        mod, s, K, edb = PL.build(scheme, cfg, db)
        if P.get("twin"):
            return False
        got = PL.search(scheme, s, K, edb, absent)
        if len(got) != 0:
            return S.fail("non-empty-result")
        # and the stored keywords are still answered (sanity: the index is not trivially empty)
        for w in db:
            if not PL.same(scheme, PL.search(scheme, s, K, edb, w), db[w]):
                return S.fail("stored-keyword-wrong")
    return True


def h_other_index(P, S):
    """Search is a function of (index, token): a keyword searched on an index that contains it and then, through
    the same scheme object and key, on an index that does not, gives an empty result the second time"""
    scheme = P["scheme"]
    PL.begin(P)
    cfg = PL.small_config(scheme, P.get("over"))
    kws = PL.keywords_for(cfg)
    db_old = PL.make_db(P, S, scheme, cfg, [2, 1], keywords=kws)
    w = list(db_old.keys())[0]
    mod, s, K, e_old = PL.build(scheme, cfg, db_old)
    db_new = {k: v for k, v in db_old.items() if k != w}
    db_new[kws[2]] = list(db_old[w])
    if scheme == "CGKO06.SSE2":
        cfg["param_n"] = max(len({i for v in db_new.values() for i in v}), 1)
    order = S.pick("order", 0, 1)
    if order == 0:
        e_new = s.EDBSetup(K, db_new)
        first = PL.as_list(scheme, s.Search(e_old, s.TokenGen(K, w)))
    else:
        first = PL.as_list(scheme, s.Search(e_old, s.TokenGen(K, w)))
        e_new = s.EDBSetup(K, db_new)
    if not PL.same(scheme, first, db_old[w]):
        return S.fail("old-index-wrong")
    second = PL.as_list(scheme, s.Search(e_new, s.TokenGen(K, w)))
    if len(second) != 0:
        return S.fail("absent-keyword-answered-from-another-index")
    again = PL.as_list(scheme, s.Search(e_old, s.TokenGen(K, w)))
    if not PL.same(scheme, again, db_old[w]):
        return S.fail("old-index-wrong-after-searching-the-new-one")
    return True


def obligations(tier, seed):
    obs = []
    klens = (1, 2, 3) if tier == "quick" else (1, 2, 3, 4)
    lens_list = [[2, 1, 1, 1], [5, 2, 1, 1]] if tier == "quick" else [[2, 1, 1, 1], [5, 2, 1, 1], [1, 3, 2, 1], [4, 1, 0, 0], [1, 0, 0, 0], [9, 1, 1, 1]]
    from harness.c01 import _fits
    for scheme in PL.SCHEMES:
        for lens in lens_list:
            if not _fits(scheme, {}, [x for x in lens if x]):
                continue            # beyond the configured capacity: outside the property's domain
            for L in klens:
                if scheme in ("CGKO06.SSE1", "CGKO06.SSE2") and L > 4:
                    continue
                obs.append(ob("c02.%s.%s.k%d" % (scheme, "-".join(map(str, lens)), L), "harness.c02", "h_absent",
                              {"scheme": scheme, "over": {}, "lens": lens, "klen": L, "seed": seed},
                              budget_s=300 if tier == "quick" else 900, per_path_s=30 if tier == "quick" else 200))
    # non-default configurations (block sizes, locality, key sizes): the absent-keyword path of every one of them
    from harness.c01 import CONFIGS
    for scheme in PL.SCHEMES:
        cfgs = CONFIGS[scheme][1:] if tier == "thorough" else CONFIGS[scheme][1:3]
        for ci, over in enumerate(cfgs, 1):
            for lens in ([2, 1, 1, 1], [5, 2, 1, 1]) if tier == "thorough" else ([2, 1, 1, 1],):
                if not _fits(scheme, over, [x for x in lens if x]):
                    continue
                obs.append(ob("c02.%s.cfg%d.%s.k2" % (scheme, ci, "-".join(map(str, lens))), "harness.c02", "h_absent",
                              {"scheme": scheme, "over": over, "lens": lens, "klen": 2, "seed": seed},
                              budget_s=300 if tier == "quick" else 900, per_path_s=30 if tier == "quick" else 200))
    for scheme in PL.SCHEMES:
        obs.append(ob("c02.other_index.%s" % scheme, "harness.c02", "h_other_index",
                      {"scheme": scheme, "over": {}, "seed": seed}, budget_s=300))
    obs.append(twin("c02.twin", "harness.c02", "h_absent",
                    {"scheme": "CJJ14.PiBas", "over": {}, "lens": [1, 1, 1, 1], "klen": 2, "twin": True}))
    return obs
