"""helpers shared by the harness modules"""


def ob(name, module, func, params, engine="sx", budget_s=120, per_path_s=30, **kw):
    d = {"name": name, "module": module, "func": func, "params": dict(params), "engine": engine,
         "budget_s": budget_s, "per_path_s": per_path_s, "expect": "holds"}
    d.update(kw)
    return d


def twin(name, module, func, params, engine="sx", budget_s=120, per_path_s=30, **kw):
    """reachability twin: the same harness with P["twin"] set returns False where the final assertion
    sits; it must come back refuted, otherwise the obligation family is vacuous"""
    d = ob(name, module, func, params, engine, budget_s, per_path_s, **kw)
    d["expect"] = "refuted"
    d["max_cex"] = 1
    return d


class NullLogger:
    def info(self, *a, **k):
        pass
    warning = error = debug = critical = exception = info
