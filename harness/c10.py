"""C10 - the server keeps each service in a forward-only, write-once state machine."""
import json
import pickle

from env import aio
from harness import frontend as FE
from harness.common import ob, twin

META = {
    "level": "model_checking",
    "explanation": "the server's per-service protocol is a 3-state machine over its files. (1) One inductive step, "
                   "executed symbolically (CrossHair/z3) on the real Service class and its real dispatcher "
                   "_recv_message over an in-memory file-system model: from every reachable persistent state "
                   "(solver-chosen: state, which of two configurations / two indexes was accepted, reached with or "
                   "without a clean close) one solver-chosen message (type incl. unknown/absent, sid incl. "
                   "foreign/absent, payload) is delivered on a fresh connection; replies, raised error, the file "
                   "system and the state reported to the NEXT connection must equal the reference model. "
                   "(2) Depth-3/4 sequences of eight event kinds cross-check reachability.",
    "bounds": {"states": "0,1,2 x {c1,c2} x {e1,e2}", "message": "6 types x 3 sids x 2-3 payloads",
               "depth": "1 (induction) + 3 (quick) / 4 (thorough) event sequences; after an accepted step that leaves "
               "state 2, three more searches on the same connection (two with one digest, one without)",
               "service ids": "through connector.handler: 3 spellings (lower case, mixed case, padded with blanks) x 3 "
               "placements of reconnects; a path-like id only as the OTHER service"},
    "outside_bounds": "the websockets library and real sockets; overlapping connections (C12); crashes inside a "
                      "handler (C13)",
    "stubs": ["file managers over env/memfs.py (POSIX semantics of mkdir/open/write/close/unlink/rmtree)",
              "asyncio -> env/aio.py cooperative runtime; fake websocket; loggers silenced"],
    "assumptions": ["real PiBas scheme with the real HMAC/AES for the search path (concrete fixtures)"],
    "functions": ["frontend.server.connector.handler", "frontend.server.services.service.Service.{__init__,_recv_message,handle_upload_config,"
                  "handle_upload_encrypted_database,handle_search_token,send_init_echo,close_service}",
                  "frontend.server.services.file_manager.*", "frontend.server.services.comm.send_message"],
}

prepare = FE.prepare
TYPES = ["config", "upload_edb", "token", "init", "bogus", None]


class Model:
    def __init__(self):
        self.state, self.cfg, self.edb = 0, None, None

    def copy(self):
        m = Model()
        m.state, m.cfg, m.edb = self.state, self.cfg, self.edb
        return m


def _connect(rt):
    SV = FE.FIX["mods"][0]
    ws = aio.FakeWS()
    svc = SV.Service(FE.SID, ws)
    rt.run_until_idle()
    return svc, ws


def _deliver(svc, ws, rt, raw):
    """one frame through the real dispatcher; returns (new frames, error that killed the dispatcher or None)"""
    n0 = len(ws.sent)
    ws.feed(raw)
    ws.close_now()
    err = FE.run_dispatch(svc, rt)
    return FE.frames(ws)[n0:], err


def _fs_ok(fs, m):
    """the files the model state implies"""
    base = "/home/.sse/" + FE.SID
    if m.state == 0:
        return not fs.exists(base)
    if base not in fs.dirs:
        return False
    try:
        if json.loads(fs.files[base + "/config.json"].decode()) != FE.FIX[m.cfg]:
            return False
        if pickle.loads(fs.files[base + "/service_meta"]) != {"state": m.state}:
            return False
    except Exception:
        return False
    if m.state == 2:
        return fs.files.get(base + "/edb") == FE.FIX[m.edb]
    return (base + "/edb") not in fs.files


def _event(S, tag, kinds=None):
    """a solver-chosen protocol message: (raw frame, type, sid kind, payload name)"""
    t = TYPES[S.pick(tag + "type", 0, len(TYPES) - 1)]
    sidk = S.pick(tag + "sid", 0, 2)          # 0 own, 1 foreign, 2 absent
    sid = (FE.SID, FE.FOREIGN, None)[sidk]
    payload = None
    extra = {}
    if t == "config":
        payload = ("c1", "c2")[S.pick(tag + "cfg", 0, 1)]
        content = pickle.dumps(FE.FIX[payload])
    elif t == "upload_edb":
        payload = ("e1", "e2")[S.pick(tag + "edb", 0, 1)]
        content = FE.FIX[payload]
    elif t == "token":
        payload = (b"kw", b"other", b"absent")[S.pick(tag + "word", 0, 2)]
        content = FE.FIX["tokens"][payload]
        extra["token_digest"] = b"digest-" + payload
    else:
        content = b"x"
    return FE.msg(t, sid, content, **extra), t, sidk, payload


def _check_step(S, fs, m, new, err, t, sidk, payload, before):
    """compares one delivered message with the reference model; returns failure tag or None. Updates m."""
    if sidk != 0 or t is None:
        if new or err is not None or fs.snapshot() != before:
            return "foreign-or-malformed-message-not-ignored"
        return None
    if t in ("init", "bogus"):
        if fs.snapshot() != before:
            return "unknown-type-changed-state"
        for (ft, c, _) in new:
            if isinstance(c, dict) and c.get("ok"):
                return "unknown-type-acknowledged"
        return None
    accept = (t == "config" and m.state == 0) or (t == "upload_edb" and m.state == 1) or (t == "token" and m.state == 2)
    reply_type = {"config": "config", "upload_edb": "upload_edb", "token": "result"}[t]
    if not accept:
        if fs.snapshot() != before:
            return "refused-request-changed-files"
        if len(new) != 1 or new[0][0] != reply_type or not isinstance(new[0][1], dict) or new[0][1].get("ok") is not False:
            return "refused-request-not-answered-with-ok-false"
        if not isinstance(err, ValueError):
            return "refused-request-did-not-raise"
        return None
    if err is not None:
        return "accepted-request-raised:%s" % type(err).__name__
    if t == "token":
        if fs.snapshot() != before:
            return "search-changed-files"
        if len(new) != 1 or new[0][0] != "result":
            return "search-not-answered"
        if new[0][2] != b"digest-" + payload:
            return "result-does-not-echo-token-digest"
        if new[0][1] != FE.expected_result(m.edb, payload):
            return "search-not-from-accepted-index"
        return None
    if len(new) != 1 or new[0][0] != reply_type or new[0][1] != {"ok": True}:
        return "accepted-request-not-acknowledged"
    if t == "config":
        m.state, m.cfg = 1, payload
    else:
        m.state, m.edb = 2, payload
    if not _fs_ok(fs, m):
        return "files-do-not-match-accepted-request"
    return None


def _reach(S, fs, rt, tag, states=(0, 1, 2)):
    """an arbitrary reachable persistent state, built through the real handlers"""
    m = Model()
    target = S.choice(tag + "state", list(states))
    if target == 0:
        return m
    svc, ws = _connect(rt)
    cfg = ("c1", "c2")[S.pick(tag + "pcfg", 0, 1)]
    new, err = _deliver(svc, ws, rt, FE.msg("config", FE.SID, pickle.dumps(FE.FIX[cfg])))
    m.state, m.cfg = 1, cfg
    if target == 2:
        if S.pick(tag + "same_conn", 0, 1) == 0:
            _end(S, svc, tag + "mid")
            svc, ws = _connect(rt)
        else:
            ws.closed = aio.Future()         # same connection keeps going
        edb = ("e1", "e2")[S.pick(tag + "pedb", 0, 1)]
        new, err = _deliver(svc, ws, rt, FE.msg("upload_edb", FE.SID, FE.FIX[edb]))
        m.state, m.edb = 2, edb
    _end(S, svc, tag + "end")
    return m


def _end(S, svc, tag):
    """the connection ends: clean (the manager calls close_service) or abrupt (server restart: object dropped)"""
    if S.pick(tag + "clean", 0, 1) == 1:
        svc.close_service()


def h_step(P, S):
    fs, rt = FE.world()
    m = _reach(S, fs, rt, "pre_", P.get("states", (0, 1, 2)))
    if not _fs_ok(fs, m):
        return S.fail("pre-state-files")
    svc, ws = _connect(rt)
    fr = FE.frames(ws)
    if fr != [("init", {"ok": True, "state": m.state}, None)]:
        return S.fail("init-echo-differs-from-reached-state")
    raw, t, sidk, payload = _event(S, "m_")
    before = fs.snapshot()
    if P.get("twin"):
        return False
    new, err = _deliver(svc, ws, rt, raw)
    bad = _check_step(S, fs, m, new, err, t, sidk, payload, before)
    if bad:
        return S.fail(bad)
    if m.state == 2 and err is None and sidk == 0 and t in ("config", "upload_edb", "token"):
        # the SAME connection goes on: two searches for different keywords that carry the same (client-chosen,
        # unverified) digest, then one without a digest - each answered from the accepted index
        for word, extra in ((b"kw", {"token_digest": b"same"}), (b"other", {"token_digest": b"same"}), (b"absent", {})):
            ws.closed = aio.Future()
            new2, err2 = _deliver(svc, ws, rt, FE.msg("token", FE.SID, FE.FIX["tokens"][word], **extra))
            if err2 is not None:
                return S.fail("search-on-the-same-connection-raised:%s" % type(err2).__name__)
            if len(new2) != 1 or new2[0][0] != "result" or new2[0][1] != FE.expected_result(m.edb, word):
                return S.fail("search-on-the-same-connection-not-from-accepted-index")
    _end(S, svc, "post_")
    if not _fs_ok(fs, m):
        return S.fail("files-after-connection-end")
    svc2, ws2 = _connect(rt)
    if FE.frames(ws2) != [("init", {"ok": True, "state": m.state}, None)]:
        return S.fail("next-connection-reports-wrong-state")
    if m.state == 2:
        new, err = _deliver(svc2, ws2, rt, FE.msg("token", FE.SID, FE.FIX["tokens"][b"kw"], token_digest=b"d"))
        if err is not None or len(new) != 1 or new[0][1] != FE.expected_result(m.edb, b"kw"):
            return S.fail("later-search-not-from-accepted-index")
    return True


SEQ_EVENTS = [("config", 0, "c1"), ("config", 0, "c2"), ("upload_edb", 0, "e1"), ("upload_edb", 0, "e2"),
              ("token", 0, b"kw"), ("config", 1, "c1"), ("bogus", 0, None), "reconnect", "restart"]


def _fixed_event(ev):
    t, sidk, payload = ev
    sid = (FE.SID, FE.FOREIGN, None)[sidk]
    extra = {}
    if t == "config":
        content = pickle.dumps(FE.FIX[payload])
    elif t == "upload_edb":
        content = FE.FIX[payload]
    elif t == "token":
        content = FE.FIX["tokens"][payload]
        extra["token_digest"] = b"digest-" + payload
    else:
        content = b"x"
    return FE.msg(t, sid, content, **extra), t, sidk, payload


def h_seq(P, S):
    """sequences over {config c1/c2, upload e1/e2, search, foreign sid, unknown type, reconnect (clean close),
    restart (abrupt)}; a dead connection is replaced by a new one before the next message"""
    fs, rt = FE.world()
    m = Model()
    svc, ws = _connect(rt)
    alive = True
    for step in range(P["depth"]):
        ev = SEQ_EVENTS[S.pick("ev%d" % step, 0, len(SEQ_EVENTS) - 1)]
        if isinstance(ev, tuple) and not alive:
            svc, ws = _connect(rt)
            alive = True
            if FE.frames(ws) != [("init", {"ok": True, "state": m.state}, None)]:
                return S.fail("step%d:init-echo-differs-from-reached-state" % step)
        if isinstance(ev, tuple):
            kind = 0
            raw, t, sidk, payload = _fixed_event(ev)
            before = fs.snapshot()
            ws.closed = aio.Future()
            new, err = _deliver(svc, ws, rt, raw)
            bad = _check_step(S, fs, m, new, err, t, sidk, payload, before)
            if bad:
                return S.fail("step%d:%s" % (step, bad))
            if err is not None:
                alive = False
        else:
            if ev == "reconnect":
                svc.close_service()
            svc, ws = _connect(rt)
            alive = True
            if FE.frames(ws) != [("init", {"ok": True, "state": m.state}, None)]:
                return S.fail("step%d:init-echo-differs-from-reached-state" % step)
        if not _fs_ok(fs, m):
            return S.fail("step%d:files" % step)
    return True


SIDS = [FE.SID, "5F1D0C6E-Own-Service-ID", " 5f1d0c6e-own-service-id ", "svc/../x"]


def h_handler(P, S):
    """through connector.handler: the service id is an opaque string - the whole workflow for a solver-chosen
    spelling, and afterwards every OTHER spelling still names a service that does not exist"""
    fs, rt = FE.world()
    FE.reset_server()
    sid = SIDS[S.pick("sid", 0, 2)]
    if P.get("twin"):
        return False

    def settle():
        rt.run_until_idle()
        for _ in range(6):
            pend = rt.pending_sleeps()
            if not pend:
                break
            for f in pend:
                f.set_result()
            rt.run_until_idle()

    split = S.pick("split", 0, 2)          # 0: one connection, 1: reconnect after config, 2: reconnect after every step
    ws = aio.FakeWS("a")
    FE.connect(rt, ws, sid)
    rt.run_until_idle()
    if FE.frames(ws) != [("init", {"ok": True, "state": 0}, None)]:
        return S.fail("new-service-not-reported-as-state-0")
    script = [("config", pickle.dumps(FE.FIX["c1"]), {}, 1), ("upload_edb", FE.FIX["e1"], {}, 2),
              ("token", FE.FIX["tokens"][b"kw"], {"token_digest": b"d"}, 2)]
    for i, (t, content, extra, st) in enumerate(script):
        n0 = len(ws.sent)
        ws.feed(FE.msg(t, sid, content, **extra))
        rt.run_until_idle()
        new = FE.frames(ws)[n0:]
        if len(new) != 1:
            return S.fail("request-%s-got-%d-replies" % (t, len(new)))
        if t == "token":
            if new[0][0] != "result" or new[0][1] != FE.expected_result("e1", b"kw"):
                return S.fail("search-not-from-accepted-index")
        elif new[0][1] != {"ok": True}:
            return S.fail("request-%s-not-acknowledged" % t)
        if (split == 1 and i == 0) or split == 2:
            ws.close_now()
            settle()
            ws = aio.FakeWS("b%d" % i)
            FE.connect(rt, ws, sid)
            rt.run_until_idle()
            if FE.frames(ws) != [("init", {"ok": True, "state": st}, None)]:
                return S.fail("reconnect-reports-wrong-state")
    ws.close_now()
    settle()
    for other in SIDS:
        if other == sid:
            continue
        wo = aio.FakeWS("o")
        FE.connect(rt, wo, other)
        rt.run_until_idle()
        if FE.frames(wo) != [("init", {"ok": True, "state": 0}, None)]:
            return S.fail("another-service-id-shares-state")
        wo.close_now()
        settle()
    return True


def obligations(tier, seed):
    obs = [ob("c10.handler", "harness.c10", "h_handler", {"seed": seed}, budget_s=600),
           twin("c10.handler.twin", "harness.c10", "h_handler", {"twin": True})]
    obs += [ob("c10.step.s%d" % st, "harness.c10", "h_step", {"seed": seed, "states": [st]}, budget_s=900)
           for st in (0, 1, 2)]
    obs.append(twin("c10.step.twin", "harness.c10", "h_step", {"twin": True}))
    depth = 3 if tier == "quick" else 4
    obs.append(ob("c10.seq%d" % depth, "harness.c10", "h_seq", {"depth": depth, "seed": seed},
                  budget_s=1200 if tier == "quick" else 5000))
    return obs
