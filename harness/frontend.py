"""Shared set-up for the frontend properties C10-C13: real Service / ServicesManager / client Service classes over
the in-memory FS model, the cooperative asyncio runtime and fake websockets."""
import pickle

from env import aio, memfs
from harness.common import NullLogger

FIX = {}
SID = "5f1d0c6e-own-service-id"
FOREIGN = "another-service-id"


def prepare(P):
    """imports the frontend (HOME is the worker's scratch directory), silences the loggers, binds the runtime,
    and builds the fixtures natively with the REAL primitives: two configurations, one key, two tiny indexes,
    tokens and the expected results"""
    import frontend.server.services.service as SV
    import frontend.server.services.services_manager as SM
    import frontend.server.services.comm as CM
    import frontend.server.services.file_manager as SFM
    import frontend.client.services.service as CV
    import frontend.client.services.file_manager as CFM
    SV.logger = NullLogger()
    SM.logger = NullLogger()
    CV.logger = NullLogger()
    SM.asyncio = aio.AsyncioShim
    CM.asyncio = aio.AsyncioShim
    SV.asyncio = aio.AsyncioShim
    CV.asyncio = aio.AsyncioShim
    FIX["mods"] = (SV, SM, CM, SFM, CV, CFM)
    if "c1" in FIX:
        return
    from schemes import load_sse_module
    from schemes.CJJ14.PiBas.config import DEFAULT_CONFIG
    c1 = dict(DEFAULT_CONFIG)
    c1["salt"] = "aa" * 32
    c2 = dict(DEFAULT_CONFIG)
    c2["salt"] = "bb" * 32       # same scheme parameters (the fixtures' key/indexes/tokens fit both), other salt
    mod = load_sse_module("CJJ14.PiBas")
    s = mod.SSEScheme(c1)
    K = s.KeyGen()
    db1 = {b"kw": [b"id000001", b"id000002"], b"other": [b"id000003"]}
    db2 = {b"kw": [b"id000009"], b"zz": [b"id000008", b"id000007"]}
    e1 = s.EDBSetup(K, db1)
    e2 = s.EDBSetup(K, db2)
    FIX.update(c1=c1, c2=c2, K=K, db1=db1, db2=db2, e1=e1.serialize(), e2=e2.serialize(), scheme=s, mod=mod,
               tokens={w: s.TokenGen(K, w).serialize() for w in (b"kw", b"other", b"zz", b"absent")})


def world():
    """a fresh file system + runtime"""
    SV, SM, CM, SFM, CV, CFM = FIX["mods"]
    fs = memfs.MemFS()
    memfs.install(fs, server_fm=SFM, client_fm=CFM)
    rt = aio.reset()
    return fs, rt


_SERVER_GLOBALS = {}


def reset_server(rt=None):
    """a freshly started server process: module-level state of frontend.server.connector is what it is right after
    import (manager instances re-created, containers restored to their import-time content)"""
    import copy
    import frontend.server.connector as CN
    SM = FIX["mods"][1]
    if not _SERVER_GLOBALS:
        for name, v in list(vars(CN).items()):
            if name.startswith("__"):
                continue
            if isinstance(v, (dict, list, set)):
                _SERVER_GLOBALS[name] = copy.copy(v)
    for name, v in list(vars(CN).items()):
        if isinstance(v, SM.ServicesManager):
            setattr(CN, name, SM.ServicesManager())
    for name, v0 in _SERVER_GLOBALS.items():
        setattr(CN, name, copy.copy(v0))
    return CN


def connect(rt, ws, sid):
    """a client connection reaches the server: connector.handler is started on it, the init frame is its first
    message (what the real client sends first)"""
    import frontend.server.connector as CN
    ws.feed(msg("init", sid, b""))
    return rt.create_task(CN.handler(ws, "/"))


def msg(mtype, sid, content, **extra):
    d = {"type": mtype, "sid": sid, "content": content}
    if mtype is None:
        del d["type"]
    if sid is None:
        del d["sid"]
    d.update(extra)
    return pickle.dumps(d)


def frames(ws):
    """decoded frames a server-side fake websocket has sent: list of (type, payload, extra)"""
    out = []
    for raw in ws.sent:
        d = pickle.loads(raw)
        t = d.get("type")
        c = d.get("content")
        if t in ("init", "config", "upload_edb"):
            c = pickle.loads(c)
        elif t == "result":
            try:
                c2 = pickle.loads(c)
                c = c2
            except Exception:
                pass
        out.append((t, c, d.get("token_digest")))
    return out


def expected_result(edb_name, word):
    db = FIX["db1"] if edb_name == "e1" else FIX["db2"]
    return db.get(word, [])


def run_dispatch(svc, rt):
    """drives Service._recv_message() over whatever is in the websocket's inbox until the connection closes or
    the dispatcher dies; returns the exception that ended it (None = clean end)"""
    t = rt.create_task(svc._recv_message())
    rt.run_until_idle()
    return t.error
