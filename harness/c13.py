"""C13 - a crash between persistence steps never leaves a service unusable."""
import pickle

from env import aio, memfs
from harness import frontend as FE
from harness import c11 as W
from harness.common import ob, twin

META = {
    "level": "fault_enumeration",
    "explanation": "bounded crash-point exploration by symbolic execution (CrossHair/z3) of the real client and server "
                   "services over the in-memory file-system model: the interrupted workflow step and the crash point "
                   "(index of the state-changing file operation - mkdir, create/truncate, close/flush, replace, "
                   "unlink - and before/after) are solver variables; execution is cut there by an exception raised "
                   "from the file-system model (unflushed buffers are lost, as for a killed process), every "
                   "in-memory object is dropped, fresh Service objects are built over the same files, and the rest "
                   "of the workflow is run the way a user would (re-creating the service if creation never "
                   "returned, retrying the interrupted step when the reported state asks for it; before that, ONE "
                   "solver-chosen workflow operation is attempted out of order, as a user who does not remember "
                   "where the workflow stopped would). The handshake "
                   "must succeed and the workflow must end in correct searches.",
    "bounds": {"interrupted step": "create-service, generate-key, encrypt-database, upload-config (server store + "
               "client acknowledgement), upload-index (server store + client acknowledgement)",
               "crash point": "every state-changing file operation of the step, before and after it",
               "after restart": "none or one of generate-key / encrypt / upload-config / upload-index / search first "
               "(solver-chosen), then the workflow in order",
               "database": "2 keywords (index below the 8 KiB write-buffer size, so a partial index file is empty)"},
    "outside_bounds": "crashes inside a single write() of a large index (partial flushes), fsync/disk-cache "
                      "effects, simultaneous crash of both sides at different points",
    "stubs": ["as C11; the process kill is modelled by env.memfs.Crash (a BaseException) raised by the model"],
    "assumptions": ["a killed process loses its user-space write buffers; completed close()/rename() calls are "
                    "durable"],
    "functions": ["frontend.server.services.file_manager.*", "frontend.client.services.file_manager.*",
                  "frontend.server.services.service.Service.{__init__,handle_upload_config,"
                  "handle_upload_encrypted_database}", "frontend.client.services.service.Service.{__init__,"
                  "handle_create_config,handle_create_key,handle_encrypt_database,handle_upload_config_echo,"
                  "handle_upload_encrypted_database_echo,load_websocket}"],
}

prepare = W.prepare
STEPS = ["create", "genkey", "encrypt", "upload_config", "upload_db"]
ALL = W.CREATED | W.CFGUP | W.KEY | W.ENC | W.DBUP


def _restart():
    """both processes are gone: new runtime, new services manager; the file system stays"""
    import frontend.server.connector as CN
    SM = FE.FIX["mods"][1]
    rt = aio.reset()
    FE.reset_server()
    W.WORLD["rt"] = rt
    W.WORLD["conns"] = []
    return rt


def _known_sid(fs):
    """the service ids the user can know: those whose create step returned (tracked by the harness)"""
    return W.WORLD.get("sid", "")


def _finish(S, fs, rt, sid):
    """the rest of the workflow, the way a user would drive it; returns failure tag or None"""
    for round_ in range(2):
        for op in ("genkey", "encrypt", "upload_config", "upload_db"):
            try:
                flags = W._flags(fs, sid)
            except Exception as e:
                return "client-state-unreadable:%s" % type(e).__name__
            # upload flags are re-synchronised from the server at connect, so consult the model with the
            # prerequisites only
            can, _ = W._model_apply(flags, op)
            if op in ("upload_config", "upload_db"):
                can = True
            if not can:
                continue
            out, _ = W._run_op(fs, rt, sid, op, dict(W.DB) if op == "encrypt" else None)
            if out.startswith("error:") and out not in ("error:ValueError",):
                return "step-%s-failed-with-%s" % (op, out)
    # (the persisted upload flags may lag behind: they are re-synchronised from the server at every connect, which
    # is the documented recovery mechanism - what counts is that the workflow ends in correct searches)
    try:
        W._flags(fs, sid)
    except Exception as e:
        return "client-state-unreadable:%s" % type(e).__name__
    n = len(W.WORLD["results"])
    for w in (b"kw", b"other", b"absent"):
        out, _ = W._run_op(fs, rt, sid, "search", w)
        if out != "ok":
            return "workflow-stuck:final-search-%s(flags %d)" % (out, W._flags(fs, sid))
    if [r for (_, r) in W.WORLD["results"][n:]] != [W.DB.get(w, []) for w in (b"kw", b"other", b"absent")]:
        return "final-search-results-wrong"
    return None


def h_crash(P, S):
    fs, rt = W._world()
    step = P["step"]
    sid = ""
    # the steps before the interrupted one run without faults
    for op in STEPS[:STEPS.index(step)]:
        out, sid = W._run_op(fs, rt, sid, op, W._valid_config() if op == "create" else (dict(W.DB) if op == "encrypt" else None))
        if out != "ok":
            return S.fail("setup-%s-%s" % (op, out))
    base = fs.nops
    k = S.pick("k", 1, P["max_k"])
    when = ("before", "after")[S.pick("when", 0, 1)]
    hit = {"n": 0}

    def hook(n, kind, path, w):
        if n == base + k and w == when and not hit["n"]:
            hit["n"] = 1
            raise memfs.Crash("%s %s %s" % (w, kind, path))
    fs.hook = hook
    crashed = False
    returned_sid = sid
    try:
        out, new_sid = W._run_op(fs, rt, sid, step, W._valid_config() if step == "create" else (dict(W.DB) if step == "encrypt" else None))
        if step == "create" and out == "ok":
            returned_sid = new_sid
    except memfs.Crash:
        crashed = True
    fs.hook = None
    if not crashed:
        if fs.nops - base >= k:
            return S.fail("crash-swallowed-by-the-code-under-test")
        return True                              # the step has fewer file operations than k: nothing to check
    if P.get("twin"):
        return False
    rt = _restart()
    # what the user does next
    if step == "create":
        # creation never returned a service id: the user creates the service again (new salt, new id)
        out, returned_sid = W._run_op(fs, rt, "", "create", W._valid_config())
        if out != "ok":
            return S.fail("re-create-after-crash-%s" % out)
    # ... but not necessarily in workflow order: first ONE solver-chosen operation out of order (it may be refused,
    # or be exactly the right next step), then the rest of the workflow
    probe = (None, "genkey", "encrypt", "upload_config", "upload_db", "search")[S.pick("probe", 0, 5)]
    if probe is not None:
        try:
            W._flags(fs, returned_sid)
        except Exception as e:
            return S.fail("client-state-unreadable:%s|crash %s op %d of %s" % (type(e).__name__, when, k, step))
        out, _ = W._run_op(fs, rt, returned_sid, probe,
                           dict(W.DB) if probe == "encrypt" else (b"kw" if probe == "search" else None))
        if out.startswith("error:") and out != "error:ValueError":
            return S.fail("probe-%s-failed-with-%s|crash %s op %d of %s" % (probe, out, when, k, step))
    bad = _finish(S, fs, rt, returned_sid)
    if bad:
        return S.fail("%s|crash %s op %d of %s, then %s" % (bad, when, k, step, probe))
    return True


def obligations(tier, seed):
    obs = []
    for step in STEPS:
        obs.append(ob("c13.crash.%s" % step, "harness.c13", "h_crash", {"step": step, "max_k": 14, "seed": seed},
                      budget_s=900, max_cex=60))
    obs.append(twin("c13.twin", "harness.c13", "h_crash", {"step": "genkey", "max_k": 2, "twin": True}))
    return obs
