"""C14 - symmetric encryption wrapper: correct decryption, fixed expansion, fresh randomness, contracts."""
from harness.common import ob, twin

META = {
    "level": "other",
    "explanation": "bounded symbolic execution (CrossHair/z3) of the real AESxCBC wrapper (length contracts, PKCS7 "
                   "padding call, IV generation and placement, IV split, argument order) relative to an axiomatised "
                   "AES-CBC: the cipher is an ideal cipher (ciphertext = fresh coins of the padded length, table "
                   "(key, iv, ct) -> padded plaintext, unknown triple fails), PKCS7 is an exact pure-Python model, "
                   "os.urandom a logged coin source. Message bytes and key bytes are solver variables at every "
                   "message length of the bound; declared key/message/cipher lengths are UNBOUNDED symbolic ints "
                   "in the contract obligations.",
    "bounds": {"message length": "0..34 (quick) / 0..80 (thorough), all byte values", "key sizes": "16, 24, 32",
               "runs on one cipher object": "2 encryptions per obligation; plus 700 (quick) / 9000 (thorough) encryptions "
               "of one message on one object, interleaved with a second object, all pairwise different",
               "declared lengths": "all integers (symbolic), actual lengths from {0,15,16,17,32} x {15,16,24,32,33}"},
    "outside_bounds": "AES itself (hence 'a different key never returns m' only as the plumbing statement that "
                      "Decrypt hands its own key and the transmitted IV to the cipher); messages longer than the "
                      "bound (the wrapper does not branch on length beyond the contract checks)",
    "stubs": ["cryptography Cipher/algorithms/modes: ideal cipher", "cryptography.hazmat.primitives.padding (inside "
              "toolkit.symmetric_padding): pure-Python PKCS7 padder/unpadder objects, so the repository's "
              "pkcs7_pad/pkcs7_unpad themselves run symbolically", "os.urandom: coins"],
    "assumptions": ["AES-CBC is a length-preserving keyed permutation family on padded messages; OS randomness "
                    "returns distinct values on distinct calls"],
    "functions": ["toolkit.symmetric_encryption.aes.AESxCBC.{__init__,KeyGen,Encrypt,Decrypt}",
                  "toolkit.symmetric_encryption.get_symmetric_encryption_implementation"],
}


def prepare(P):
    import toolkit.symmetric_encryption.aes, toolkit.symmetric_padding  # noqa
    if not P.get("_native"):
        from env import ideal
        ideal.install()


def _impl():
    from toolkit.symmetric_encryption import get_symmetric_encryption_implementation
    return get_symmetric_encryption_implementation("AES-CBC")


def h_roundtrip(P, S):
    native = bool(P.get("_native"))
    if not native:
        from env import ideal
        W = ideal.reset(int(P.get("seed", 0)))
    n, kl = P["n"], P["kl"]
    E = _impl()(key_length=kl)
    m = S.bytes("m", n)
    if P.get("symbolic_key"):
        k = S.bytes("k", kl)
    else:
        k = E.KeyGen()
        if len(k) != kl:
            return S.fail("keygen-length")
    if not native:
        n_rand0 = len(W.urandom_log)
    c1 = E.Encrypt(k, m)
    c2 = E.Encrypt(k, m)
    if P.get("twin"):
        return False
    if len(c1) != 16 + 16 * (n // 16 + 1) or len(c2) != len(c1):
        return S.fail("cipher-length")
    if c1 == c2:
        return S.fail("two-encryptions-equal")
    if E.Decrypt(k, c1) != m:
        return S.fail("decrypt-1")
    if E.Decrypt(k, c2) != m:
        return S.fail("decrypt-2")
    if not native:
        # fresh randomness: each Encrypt consumed exactly one new 16-byte os.urandom value and that value is the
        # ciphertext prefix (so two encryptions differ whenever the OS returns different values)
        used = W.urandom_log[n_rand0:]
        if len(used) != 2 or len(used[0]) != 16 or len(used[1]) != 16:
            return S.fail("iv-not-one-urandom-call-per-encrypt")
        if c1[:16] != used[0] or c2[:16] != used[1]:
            return S.fail("iv-not-ciphertext-prefix")
        # the cipher saw the padded message under (k, iv)
        (k1, iv1, ct1, p1) = W.enc[-2]
        if k1 != k or iv1 != used[0] or c1[16:] != ct1:
            return S.fail("cipher-arguments")
        pad = 16 - n % 16
        if p1 != m + bytes([pad]) * pad:
            return S.fail("padding")
        # a different key is handed to the cipher as such: the ideal cipher then fails -> raises
        k2 = bytes([k[0] ^ 1]) + k[1:] if not P.get("symbolic_key") else None
        if k2 is not None:
            try:
                if E.Decrypt(k2, c1) == m:
                    return S.fail("wrong-key-returned-message")
            except ValueError:
                pass
    else:
        k2 = bytes([k[0] ^ 1]) + bytes(k[1:])
        try:
            if E.Decrypt(k2, c1) == m:
                return S.fail("wrong-key-returned-message")
        except ValueError:
            pass
    return True


def h_contracts(P, S):
    """declared key / message / cipher lengths: ValueError exactly on mismatch"""
    from toolkit.symmetric_encryption.aes import AESxCBC
    if not P.get("_native"):
        from env import ideal
        ideal.reset(0)
    kl = S.int("kl", None, None)
    ml = S.int("ml", None, None)
    cl = S.int("cl", None, None)
    try:
        E = AESxCBC(key_length=kl, message_length=ml, cipher_length=cl)
        made = True
    except ValueError:
        made = False
    exp_made = (kl == 16 or kl == 24 or kl == 32) and (cl == -1 or cl % 16 == 0)
    if made != exp_made:
        return S.fail("constructor-contract")
    if not made:
        return True
    an = S.choice("an", [0, 15, 16, 17, 32])
    ak = S.choice("ak", [15, 16, 24, 32, 33])
    try:
        c = E.Encrypt(b"k" * ak, b"m" * an)
        ok = True
    except ValueError:
        ok = False
    if ok != ((ml == -1 or ml == an) and ak == kl):
        return S.fail("encrypt-contract")
    if not ok:
        return True
    # decrypt-side contracts on the produced ciphertext
    try:
        E.Decrypt(b"k" * ak, c)
        dok = True
    except ValueError:
        dok = False
    if dok != (cl == -1 or cl == len(c)):
        return S.fail("decrypt-contract")
    ak2 = S.choice("ak2", [15, 16, 24, 32, 33])
    if ak2 != ak:
        try:
            E.Decrypt(b"k" * ak2, c)
            return S.fail("decrypt-wrong-key-length-accepted")
        except ValueError:
            pass
    return True


def h_pad(P, S):
    """the repository's pkcs7_pad: exact PKCS7 for every message of the length"""
    from toolkit.symmetric_padding import pkcs7_pad
    n = P["n"]
    m = S.bytes("m", n)
    out = pkcs7_pad(m, 128)
    p = 16 - n % 16
    return True if out == m + bytes([p]) * p else S.fail("pad")


def h_unpad(P, S):
    """the repository's pkcs7_unpad is STRICT: it returns r exactly when the input is r followed by p bytes of
    value p (1 <= p <= 16), and raises ValueError on every other input - this strictness is what turns a
    wrong-key decryption into an error (DP17 relies on it)"""
    from toolkit.symmetric_padding import pkcs7_unpad
    n = P["n"]
    x = S.bytes("x", n)
    valid = False
    if n > 0 and n % 16 == 0:
        last = x[n - 1]
        for p in range(1, 17):
            if last == p:
                ok = True
                for j in range(p):
                    if x[n - 1 - j] != p:
                        ok = False
                        break
                valid = ok
                break
    try:
        r = pkcs7_unpad(x, 128)
    except ValueError:
        return True if not valid else S.fail("valid-padding-refused")
    if not valid:
        return S.fail("invalid-padding-accepted")
    return True if r == x[:n - x[n - 1]] else S.fail("unpad-result")


def h_tamper(P, S):
    """Decrypt of a ciphertext whose length is not 16 + a positive multiple of 16 raises; truncated ones raise"""
    if not P.get("_native"):
        from env import ideal
        ideal.reset(0)
    E = _impl()(key_length=16)
    k = E.KeyGen()
    c = E.Encrypt(k, b"0123456789abcdefXYZ")
    cut = S.pick("cut", 0, len(c) - 1)
    try:
        r = E.Decrypt(k, c[:cut])
    except ValueError:
        return True
    return S.fail("truncated-ciphertext-accepted") if r == b"0123456789abcdefXYZ" else True


def h_many(P, S):
    """fresh randomness over a long run on ONE cipher object (and a second object of the class): R encryptions of
    one message under one key are pairwise different, and none of them equals an encryption by the other object"""
    if not P.get("_native"):
        from env import ideal
        ideal.reset(int(P.get("seed", 0)))
    n, kl, R = P["n"], P["kl"], P["reps"]
    E, E2 = _impl()(key_length=kl), _impl()(key_length=kl)
    m = S.bytes("m", n)
    k = E.KeyGen()
    if P.get("twin"):
        return False
    seen = {}
    for i in range(R):
        c = bytes(E.Encrypt(k, m))
        if c in seen:
            return S.fail("encryption-%d-equals-encryption-%d" % (i, seen[c]))
        seen[c] = i
        if i % 97 == 0:
            c2 = bytes(E2.Encrypt(k, m))
            if c2 in seen:
                return S.fail("two-cipher-objects-produce-the-same-ciphertext")
            seen[c2] = -1
    if E.Decrypt(k, c) != m:
        return S.fail("decrypt-after-many")
    return True


def obligations(tier, seed):
    obs = []
    q = tier == "quick"
    lens = list(range(0, 35)) if q else list(range(0, 81))
    for kl in (16, 24, 32):
        for n in lens:
            if q and kl != 16 and n not in (0, 1, 15, 16, 17, 31, 32, 33):
                continue
            obs.append(ob("c14.roundtrip.k%d.n%d" % (kl, n), "harness.c14", "h_roundtrip",
                          {"n": n, "kl": kl, "seed": seed}, budget_s=200))
    for n in (0, 5, 16, 31):
        obs.append(ob("c14.roundtrip.symkey.n%d" % n, "harness.c14", "h_roundtrip",
                      {"n": n, "kl": 16, "seed": seed, "symbolic_key": True}, budget_s=200))
    for n in (range(0, 34) if q else range(0, 81)):
        obs.append(ob("c14.pad.n%d" % n, "harness.c14", "h_pad", {"n": n}, budget_s=200))
    for n in (0, 1, 15, 16, 17, 32):
        obs.append(ob("c14.unpad.n%d" % n, "harness.c14", "h_unpad", {"n": n}, budget_s=400))
    for kl, n in ((16, 3), (32, 16)):
        obs.append(ob("c14.many.k%d.n%d" % (kl, n), "harness.c14", "h_many",
                      {"n": n, "kl": kl, "seed": seed, "reps": 700 if q else 9000}, budget_s=900, per_path_s=600))
    obs.append(twin("c14.many.twin", "harness.c14", "h_many", {"n": 3, "kl": 16, "reps": 3, "twin": True}))
    obs.append(ob("c14.contracts", "harness.c14", "h_contracts", {}, budget_s=400))
    obs.append(ob("c14.tamper", "harness.c14", "h_tamper", {}, budget_s=200))
    obs.append(twin("c14.twin", "harness.c14", "h_roundtrip", {"n": 5, "kl": 16, "twin": True}))
    return obs
