"""C01 - Search returns exactly the posting list of every stored keyword (all nine schemes)."""
from harness import pipeline as PL
from harness.common import ob, twin

META = {
    "level": "other",
    "explanation": "bounded symbolic execution (CrossHair/z3) of the real KeyGen/EDBSetup/TokenGen/Search of all nine "
                   "schemes through the public API under ideal primitives: list-length profile and configuration are "
                   "concrete per obligation, every identifier byte is a solver variable (except SSE-2, whose setup "
                   "hashes identifiers), and `Search(...) == DB[w]` is decided by z3 for all identifier values of the "
                   "profile on every path; all path trees are exhausted.",
    "bounds": {"keywords": "<= 3 (4 for boundary profiles)", "postings": "N <= 17", "identifier_size": "1..2 bytes",
               "keys": "one key per index; plus two keys and two indexes on ONE scheme object with interleaved searches "
               "(profiles [2,1]; thorough adds [1,3,2])", "configs": "small block parameters: PiPack/PiPtr B,b in 1..3; Pi2Lev (B,b,B',b') in {1,2,3}^4 that pass "
                          "its constructor; DP17 L in {1,2,3}, ratio in {0.2,0.5,1.0}; SSE-1 s in {8,16}; key sizes "
                          "16/24/32"},
    "outside_bounds": "default-size parameters (B=64, 8-byte identifiers) are reached only by the native replay; "
                      "bit patterns of HMAC/AES; keyword contents (concrete here, symbolic in C02)",
    "stubs": ["hmac.new/hashlib.new: lazy random oracle", "cryptography Cipher: ideal cipher (unknown triple -> "
              "ValueError)", "PKCS7: pure Python", "os.urandom: coin source", "random: deterministic LCG",
              "BitwiseFFX inside BitwiseFPEPRP: lazy random permutation (C15 covers FFX itself)",
              "DP17 result set: equality-based list set (no hashing of symbolic identifiers)"],
    "assumptions": ["ideal primitives: collision-free PRF/hash, wrong-key decryption fails; identifiers of one list "
                    "pairwise distinct and not all-zero (the property's validity predicate)"],
    "functions": ["schemes.*.construction.{_Gen,_Enc,_Trap,_Search}", "toolkit.database_utils.*",
                  "toolkit.bytes_utils.*", "toolkit.prf.hmac_prf._tls_p_hash", "toolkit.symmetric_encryption.aes.AESxCBC.*"],
}

prepare = PL.prepare


def h_present(P, S):
    scheme = P["scheme"]
    reps = 3 if P.get("_native") else 1
    for _ in range(reps):
        PL.begin(P)
        cfg = PL.small_config(scheme, P.get("over"))
        db = PL.make_db(P, S, scheme, cfg, P["lens"])
        mod, s, K, edb = PL.build(scheme, cfg, db)
        if P.get("twin"):
            return False
        for w in db:
            got = PL.search(scheme, s, K, edb, w)
            if not PL.same(scheme, got, db[w]):
                return S.fail("wrong-result")
    return True


def h_rekey(P, S):
    """`for all keys K <- KeyGen` includes a later key of the SAME scheme object: two keys, two indexes (the second
    database maps the same keywords to other lists), searches under both keys interleaved"""
    scheme = P["scheme"]
    PL.begin(P)
    cfg = PL.small_config(scheme, P.get("over"))
    db = PL.make_db(P, S, scheme, cfg, P["lens"])
    mod, s, K1, edb1 = PL.build(scheme, cfg, db)
    kws = list(db)
    db2 = {kws[i]: list(db[kws[(i + 1) % len(kws)]]) for i in range(len(kws))}     # same keywords, rotated lists
    K2 = s.KeyGen()
    if P.get("twin"):
        return False
    for w in kws:                                    # tokens of the first key are issued before the second index exists
        if not PL.same(scheme, PL.search(scheme, s, K1, edb1, w), db[w]):
            return S.fail("wrong-result-first-key")
    edb2 = s.EDBSetup(K2, db2)
    for w in kws:
        if not PL.same(scheme, PL.search(scheme, s, K2, edb2, w), db2[w]):
            return S.fail("wrong-result-second-key")
        if not PL.same(scheme, PL.search(scheme, s, K1, edb1, w), db[w]):
            return S.fail("wrong-result-first-key-after-rekeying")
    return True


# length profiles: every block / level / power-of-two boundary of the small configurations
QUICK_PROFILES = [[1], [2], [3], [4], [5], [8], [1, 1], [2, 1], [3, 2], [4, 4], [7, 2], [1, 2, 3]]
THOROUGH_PROFILES = QUICK_PROFILES + [[6], [7], [9], [16], [5, 3], [3, 1], [6, 2], [8, 8], [1, 1, 1], [2, 2, 4],
                                      [4, 2, 1], [5, 5, 5], [9, 4, 2], [1, 1, 1, 1], [15], [17]]

CONFIGS = {
    "CJJ14.PiBas": [{}, {"param_lambda": 16, "prf_f_output_length": 16}, {"param_lambda": 24, "prf_f_output_length": 24}],
    "CJJ14.PiPack": [{}, {"param_B": 1}, {"param_B": 3, "param_identifier_size": 2}],
    "CJJ14.PiPtr": [{}, {"param_B": 1, "param_b": 1}, {"param_B": 3, "param_b": 2, "param_identifier_size": 2},
                    {"param_B": 2, "param_b": 3}],
    "CJJ14.Pi2Lev": [{}, {"param_B": 4, "param_b": 2, "param_B_prime": 2, "param_b_prime": 1},
                     {"param_B": 2, "param_b": 4, "param_B_prime": 1, "param_b_prime": 2},
                     {"param_B": 3, "param_b": 3, "param_B_prime": 3, "param_b_prime": 3},
                     {"param_B": 2, "param_b": 1, "param_B_prime": 2, "param_b_prime": 1},
                     {"param_B": 2, "param_b": 2, "param_B_prime": 1, "param_b_prime": 1, "param_identifier_size": 2}],
    "CT14.Pi": [{}, {"param_k": 16, "param_k_prime": 24, "param_l": 8, "param_identifier_size": 2}],
    "ANSS16.Scheme3": [{}, {"param_k": 16, "param_k_prime": 16, "param_l": 8, "param_l_prime": 20,
                            "param_lambda": 16, "param_identifier_size": 2}],
    "DP17.Pi": [{}, {"param_L": 2}, {"param_L": 3, "param_actual_storage_level_ratio": 0.5},
                {"param_L": 2, "param_actual_storage_level_ratio": 1.0, "param_lambda": 16, "param_identifier_size": 2}],
    "CGKO06.SSE1": [{}, {"param_k": 16, "param_s": 32, "param_identifier_size": 2}],
    "CGKO06.SSE2": [{}, {"param_k": 16, "param_identifier_size": 2}],
}


def _fits(scheme, over, lens):
    """profiles that respect the configured capacities (the property's validity predicate)"""
    n = sum(lens)
    if scheme == "CGKO06.SSE1":
        s = (over or {}).get("param_s", 16)
        return n + 1 < s and len(lens) <= 4      # psi addresses 1..N and the pointer N+1 on log2(s) bits
    if scheme == "CJJ14.Pi2Lev":
        c = {"param_B": 2, "param_b": 2, "param_B_prime": 2, "param_b_prime": 2}
        c.update({k: v for k, v in (over or {}).items() if k in c})
        if not all(x < c["param_B"] * c["param_B_prime"] * c["param_b_prime"] for x in lens):
            return False
        # array index width: A_len <= 2 ** (8 * index_size)
        return True
    return True


def obligations(tier, seed):
    obs = []
    profiles = QUICK_PROFILES if tier == "quick" else THOROUGH_PROFILES
    for scheme in PL.SCHEMES:
        cfgs = CONFIGS[scheme] if tier == "thorough" else CONFIGS[scheme][:3 if scheme == "CJJ14.Pi2Lev" else 2]
        for ci, over in enumerate(cfgs):
            for lens in profiles:
                if tier == "quick" and ci > 0 and lens not in ([1], [4], [3, 2], [7, 2]):
                    continue
                if not _fits(scheme, over, lens):
                    continue
                name = "c01.%s.cfg%d.%s" % (scheme, ci, "-".join(map(str, lens)))
                obs.append(ob(name, "harness.c01", "h_present",
                              {"scheme": scheme, "over": over, "lens": lens, "seed": seed}, budget_s=240))
    for scheme in PL.SCHEMES:
        for lens in ([2, 1], [1, 3, 2]) if tier == "thorough" else ([2, 1],):
            if _fits(scheme, {}, lens):
                obs.append(ob("c01.rekey.%s.%s" % (scheme, "-".join(map(str, lens))), "harness.c01", "h_rekey",
                              {"scheme": scheme, "over": {}, "lens": lens, "seed": seed}, budget_s=300))
    obs.append(twin("c01.rekey.twin", "harness.c01", "h_rekey",
                    {"scheme": "CGKO06.SSE1", "over": {}, "lens": [2, 1], "twin": True}))
    obs.append(twin("c01.twin", "harness.c01", "h_present",
                    {"scheme": "CJJ14.PiPack", "over": {}, "lens": [3, 2], "twin": True}))
    return obs
