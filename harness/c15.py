"""C15 - pseudo-random permutations are length-preserving bijections with inverses."""
import z3

from harness.common import ob, twin

META = {
    "level": "other",
    "explanation": "SMT queries generated from the source of BitwiseFFX / Bitset / half_bits_not_padding / "
                   "BitwiseFPEPRP / LubyRackoffPRP / HmacLubyRackoffPRP / HmacPRF by the BVX AST-to-SMT "
                   "interpreter: per bit width n the plaintext is a free n-bit vector and the HMAC inside the "
                   "round function is an UNINTERPRETED function, so `decrypt(k, encrypt(k, x)) == x`, "
                   "`encrypt(k, decrypt(k, y)) == y` and `result < 2^n` are decided for all inputs, all keys and "
                   "all round functions at once (two-sided inverse on a finite set = bijection). Luby-Rackoff: "
                   "the harness applies the 3-round inverse network over the same uninterpreted PRF to the "
                   "real output and z3 proves it returns the message (injectivity) for all message bytes.",
    "bounds": {"FFX widths": "2..16, 63..65 (quick) / 2..64, 127..129, 159..161 (thorough; 319..321 did not finish "
               "inside the solver cap and are outside the claim)",
               "Luby-Rackoff": "message 2..8 bytes even (quick) / 2..64, key 3..96 bytes, digests sha1/sha256",
               "contracts": "declared vs actual key/message lengths, symbolic where the code compares them"},
    "outside_bounds": "widths beyond the list (the property mentions up to 2100 bits); n = 1 (outside the "
                      "property); HMAC/SHA bit patterns (uninterpreted)",
    "stubs": ["hmac.new(...).digest()/hexdigest(): uninterpreted function of (key, message) bits per digest",
              "struct.pack: injective tuple of its arguments"],
    "assumptions": ["W = max(2n, n+170)+16 bits bounds every intermediate value (concat of a 160-bit digest)",
                    "translator validated per obligation on random concrete inputs against native execution"],
    "functions": ["toolkit.symmetric_encryption.fpe.BitwiseFFX.{encrypt,decrypt,round,split}",
                  "toolkit.bits_utils.half_bits_not_padding", "toolkit.bits.Bitset.*",
                  "toolkit.prp.bitwise_fpe_prp.BitwiseFPEPRP.__call__", "toolkit.prp.luby_rackoff_prp.LubyRackoffPRP.*",
                  "toolkit.prp.hmac_luby_rackoff_prp.HmacLubyRackoffPRP.*", "toolkit.prf.hmac_prf.*"],
}

KEY = b"k3y-material"


def h_ffx(P, X):
    from toolkit.bits import Bitset
    from toolkit.symmetric_encryption.fpe import BitwiseFFX
    n = P["n"]
    x = X.int("x", n)
    v = X.call(Bitset, x, n)
    f = X.call(BitwiseFFX)
    y = X.method(f, "encrypt", KEY, v)
    z = X.method(f, "decrypt", KEY, y)
    if P.get("twin"):
        return False
    # the other direction: decrypt first, then encrypt
    y2 = X.method(f, "decrypt", KEY, v)
    z2 = X.method(f, "encrypt", KEY, y2)
    return X.all(X.eq(y.length, n), X.eq(z.length, n), X.eq(y2.length, n), X.eq(z2.length, n),
                 X.ult(y.value, 1 << n), X.ult(y2.value, 1 << n),
                 X.eq(z.value, x), X.eq(z2.value, x))


def h_ffx_reuse(P, X):
    """ONE cipher object used for two widths under one key (wider block first, then the narrower one, then the wider
    one again): every result keeps the width of its own input and decrypt inverts encrypt"""
    from toolkit.bits import Bitset
    from toolkit.symmetric_encryption.fpe import BitwiseFFX
    n1, n2 = P["n1"], P["n2"]
    f = X.call(BitwiseFFX)
    x1, x2, x3 = X.int("x1", n1), X.int("x2", n2), X.int("x3", n1)
    y1 = X.method(f, "encrypt", KEY, X.call(Bitset, x1, n1))
    if P.get("twin"):
        return False
    y2 = X.method(f, "encrypt", KEY, X.call(Bitset, x2, n2))
    z2 = X.method(f, "decrypt", KEY, y2)
    y3 = X.method(f, "encrypt", KEY, X.call(Bitset, x3, n1))
    z3_ = X.method(f, "decrypt", KEY, y3)
    z1 = X.method(f, "decrypt", KEY, y1)
    return X.all(X.eq(y1.length, n1), X.eq(y2.length, n2), X.eq(y3.length, n1), X.eq(z2.length, n2),
                 X.ult(y2.value, 1 << n2), X.ult(y3.value, 1 << n1),
                 X.eq(z1.value, x1), X.eq(z2.value, x2), X.eq(z3_.value, x3))


def h_fpeprp(P, X):
    """BitwiseFPEPRP: delegates to the cipher, keeps the length, refuses wrong key/message bit lengths"""
    from toolkit.bits import Bitset
    from toolkit.prp.bitwise_fpe_prp import BitwiseFPEPRP
    from toolkit.symmetric_encryption.fpe import BitwiseFFX
    from bvx.api import Raised
    n, kb = P["n"], P["kbits"]
    prp = X.call(BitwiseFPEPRP, message_bit_length=n, key_bit_length=kb)
    x = X.int("x", n)
    key = X.call(Bitset, int.from_bytes(KEY, "big") % (1 << kb), kb)
    y = X.call(prp, key, X.call(Bitset, x, n))
    f = X.call(BitwiseFFX)
    back = X.method(f, "decrypt", X.call(bytes, key), y)
    ok = X.all(X.eq(y.length, n), X.ult(y.value, 1 << n), X.eq(back.value, x))
    for (dn, dk) in ((1, 0), (-1, 0), (0, 8), (0, -8), (0, -1), (0, -7), (0, 1), (0, 7)):
        if n + dn < 1 or kb + dk < 8:
            continue
        try:
            X.call(prp, X.call(Bitset, 1, kb + dk), X.call(Bitset, 1, n + dn))
            return False
        except Raised as r:
            if not isinstance(r.exc, ValueError):
                return False
    return ok


def h_lr(P, X):
    """HmacLubyRackoffPRP: length preserved; the inverse network recovers the message (injective)"""
    from toolkit.prp.hmac_luby_rackoff_prp import HmacLubyRackoffPRP
    from toolkit.prf.hmac_prf import HmacPRF
    from toolkit.bytes_utils import bytes_xor
    from bvx.api import Raised
    m, k, dig = P["m"], P["k"], P["digest"]
    prp = X.call(HmacLubyRackoffPRP, message_length=m, key_length=k, hash_func_name=dig)
    key = bytes((37 * i + 5) % 256 for i in range(k))
    msg = X.bytes("msg", m)
    out = X.call(prp, key, msg)
    if P.get("twin"):
        return False
    if len(out) != m:
        return False
    # inverse of the 3-round network, written here over the same PRF (uninterpreted HMAC underneath)
    prf = X.call(HmacPRF, output_length=m // 2, message_length=m // 2, key_length=k // 3, hash_func_name=dig)
    ks = [key[i:i + k // 3] for i in range(0, k, k // 3)]
    left, right = out[:m // 2], out[m // 2:]
    for i in (2, 1, 0):
        prev_right = left
        prev_left = X.call(bytes_xor, right, X.call(prf, ks[i], prev_right))
        left, right = prev_left, prev_right
    rec = left + right
    ok = X.bytes_eq(rec, msg)
    # a second call returns the same bytes (deterministic)
    again = X.call(prp, key, msg)
    ok = X.all(ok, X.bytes_eq(again, out))
    # wrong lengths are refused
    for (dm, dk) in ((1, 0), (-1, 0), (0, 1), (0, -1)):
        try:
            X.call(prp, key + b"\x00" * dk if dk > 0 else key[:k + dk], (b"\x01" * (m + dm)))
            return False
        except Raised as r:
            if not isinstance(r.exc, ValueError):
                return False
    return ok


def h_lr_ctor(P, X):
    """constructor contracts: odd message length / key length not divisible by 3 are refused"""
    from toolkit.prp.hmac_luby_rackoff_prp import HmacLubyRackoffPRP
    from bvx.api import Raised
    m, k = P["m"], P["k"]
    try:
        X.call(HmacLubyRackoffPRP, message_length=m, key_length=k)
    except Raised as r:
        return isinstance(r.exc, ValueError) and (m % 2 == 1 or k % 3 != 0)
    return m % 2 == 0 and k % 3 == 0


def obligations(tier, seed):
    obs = []
    q = tier == "quick"
    widths = list(range(2, 17)) + [63, 64, 65] if q else list(range(2, 65)) + [127, 128, 129, 159, 160, 161]
    M = "harness.c15"
    for n in widths:
        W = max(2 * n, n + 170) + 16
        obs.append(ob("c15.ffx.%d" % n, M, "h_ffx", {"n": n, "W": W, "seed": seed}, engine="bvx",
                      budget_s=600, per_path_s=300, selftest=3, cross=(not q and n <= 33)))
    for n1, n2 in ((6, 5), (9, 4)) if q else ((6, 5), (9, 4), (10, 9), (17, 16), (33, 8)):
        W = max(2 * n1, n1 + 170) + 16
        obs.append(ob("c15.ffx_reuse.%d.%d" % (n1, n2), M, "h_ffx_reuse", {"n1": n1, "n2": n2, "W": W, "seed": seed},
                      engine="bvx", budget_s=600, per_path_s=300, selftest=2))
    obs.append(twin("c15.ffx_reuse.twin", M, "h_ffx_reuse", {"n1": 6, "n2": 5, "W": 200, "twin": True}, engine="bvx"))
    for n, kb in ((4, 128), (16, 192), (33, 256)) if q else ((2, 128), (4, 128), (16, 192), (33, 256), (64, 192), (130, 256)):
        W = max(2 * n, n + 170, kb + 8) + 16
        obs.append(ob("c15.fpeprp.%d.%d" % (n, kb), M, "h_fpeprp", {"n": n, "kbits": kb, "W": W, "seed": seed},
                      engine="bvx", budget_s=600, per_path_s=300, selftest=2))
    lr = [(2, 3, "sha1"), (4, 6, "sha1"), (8, 48, "sha256")] if q else \
        [(2, 3, "sha1"), (4, 6, "sha1"), (6, 3, "md5"), (8, 48, "sha256"), (16, 96, "sha1"), (32, 48, "sha256"),
         (64, 96, "sha512"), (50, 30, "sha1")]
    for m, k, dig in lr:
        obs.append(ob("c15.lr.%d.%d.%s" % (m, k, dig), M, "h_lr", {"m": m, "k": k, "digest": dig, "W": 64, "seed": seed},
                      engine="bvx", budget_s=600, per_path_s=300, selftest=3))
    for m, k in ((3, 3), (4, 4), (4, 6), (5, 5), (2, 3), (64, 95), (63, 96)):
        obs.append(ob("c15.lr_ctor.%d.%d" % (m, k), M, "h_lr_ctor", {"m": m, "k": k, "W": 64, "seed": seed},
                      engine="bvx", selftest=1))
    obs.append(twin("c15.ffx.twin", M, "h_ffx", {"n": 5, "W": 200, "twin": True}, engine="bvx"))
    obs.append(twin("c15.lr.twin", M, "h_lr", {"m": 4, "k": 6, "digest": "sha1", "W": 64, "twin": True}, engine="bvx"))
    return obs
