"""C05 - index size and layout reveal only the scheme's public size parameter."""
import math

from harness import pipeline as PL
from harness.common import ob, twin

META = {
    "level": "other",
    "explanation": "bounded symbolic execution (CrossHair/z3) of the real EDBSetup under ideal primitives (which "
                   "preserve every length): the list-length profile is a vector of solver variables "
                   "(a lists of length x, plus two free lists), the solver enumerates the feasible profiles, and "
                   "the shape of the resulting index (per container: entry count, multiset of entry byte lengths) "
                   "must equal the shape of the representative profile with the same public size parameter "
                   "pi_S; padded tables must have a single key length and a single value length. Shape equality "
                   "with a representative is transitive, so all pairs of the family are covered.",
    "bounds": {"profiles": "a in 0..5 lists of length x in 1..4, plus n1 in 0..6 and n2 in 0..2 (<= 7 keywords, "
                           "N <= 28); small block parameters; identifier size 1-2 bytes, and 16 (thorough: 15, 16, 17, 32) "
                           "after an index of another identifier size was built in the same process"},
    "outside_bounds": "larger databases and default block sizes; contents (the ideal cipher makes lengths "
                      "independent of contents by construction)",
    "stubs": ["as C01 (ideal primitives)"],
    "assumptions": ["ideal cipher and oracles preserve the real primitives' output lengths"],
    "functions": ["schemes.*.construction._Enc", "schemes.*.structures.*EncryptedDatabase"],
}

MAX_A, MAX_X, MAX_N1, MAX_N2 = 5, 4, 6, 2


MULT = [1]


def profile(a, x, n1, n2):
    m = MULT[0]
    return [x * m] * a + ([n1 * m] if n1 else []) + ([n2 * m] if n2 else [])


def _cfgvals(scheme, cfg):
    return cfg


def pi(scheme, cfg, lens):
    """the public size parameter of the property statement"""
    N = sum(lens)
    if scheme == "CGKO06.SSE1":
        return ()
    if scheme in ("CGKO06.SSE2", "CJJ14.PiBas", "DP17.Pi"):
        return N
    if scheme == "CJJ14.PiPack":
        B = cfg["param_B"]
        return sum(-(-n // B) for n in lens)
    if scheme == "CJJ14.PiPtr":
        B, b = cfg["param_B"], cfg["param_b"]
        return (sum(-(-n // B) for n in lens), sum(-(-(-(-n // B)) // b) for n in lens))
    if scheme == "CJJ14.Pi2Lev":
        B, b, Bp, bp = cfg["param_B"], cfg["param_b"], cfg["param_B_prime"], cfg["param_b_prime"]
        alen = 1
        for n in lens:
            if n > b:
                alen += -(-n // B)
            if n > bp * B:
                alen += -(-n // (B * Bp))
        return (len(lens), alen)
    return (N - 1).bit_length()          # CT14 / ANSS16: ceil(log2 N)


REPS = {}


def prepare(P):
    PL.prepare(P)
    MULT[0] = int(P.get("mult", 1))
    scheme = P["scheme"]
    cfg = PL.small_config(scheme, P.get("over"))
    for a in range(0, MAX_A + 1):
        for x in range(1, MAX_X + 1):
            for n1 in range(0, MAX_N1 + 1):
                for n2 in range(0, MAX_N2 + 1):
                    lens = profile(a, x, n1, n2)
                    if not lens or not _valid(scheme, cfg, lens):
                        continue
                    REPS.setdefault(pi(scheme, cfg, lens), lens)


def _valid(scheme, cfg, lens):
    if scheme == "CGKO06.SSE1":
        # addresses are psi(1..N) on log2(s) bits and node pointers go up to N+1: capacity is N + 1 < s
        return sum(lens) + 1 < cfg["param_s"] and len(lens) <= cfg["param_dictionary_size"]
    if scheme == "CJJ14.Pi2Lev":
        return all(n < cfg["param_B"] * cfg["param_B_prime"] * cfg["param_b_prime"] for n in lens)
    return True


def shape(x):
    if isinstance(x, (bytes, bytearray)):
        return ("b", len(x))
    if isinstance(x, dict):
        return ("dict", len(x), tuple(sorted((repr((shape(k), shape(v))) for k, v in x.items()))))
    if isinstance(x, (list, tuple)):
        return ("list", len(x), tuple(sorted(repr(shape(v)) for v in x)))
    if isinstance(x, int):
        return ("int",)
    if x is None:
        return ("None",)
    return ("obj", type(x).__name__)


def members(edb):
    out = {}
    for name in type(edb).__slots__:
        out[name] = getattr(edb, name)
    return out


def _tables(name, x, acc):
    if isinstance(x, dict):
        if x and all(isinstance(v, (bytes, bytearray)) for v in x.values()):
            acc.append((name, x))
        else:
            for k, v in x.items():
                _tables("%s[%r]" % (name, k), v, acc)
    elif isinstance(x, (list, tuple)):
        for i, v in enumerate(x):
            _tables("%s[%d]" % (name, i), v, acc)


def _diff(m1, m2):
    for name in m1:
        a, b = m1[name], m2[name]
        if shape(a) == shape(b):
            continue
        if isinstance(a, (list, tuple)) and isinstance(b, (list, tuple)) and len(a) == len(b):
            for i in range(len(a)):
                if shape(a[i]) != shape(b[i]):
                    la = len(a[i]) if hasattr(a[i], "__len__") else "?"
                    lb = len(b[i]) if hasattr(b[i], "__len__") else "?"
                    kind = "count" if la != lb else "entry-lengths"
                    return "%s[%d]:%s %s vs %s" % (name, i, kind, la, lb)
        la = len(a) if hasattr(a, "__len__") else "?"
        lb = len(b) if hasattr(b, "__len__") else "?"
        return "%s:%s %s vs %s" % (name, "count" if la != lb else "entry-lengths", la, lb)
    return None


def h_shape(P, S):
    # native replay: padding keywords / bucket choices are random with the real primitives, so a shape
    # difference found under the deterministic LCG is re-tried a few times
    reps = 12 if P.get("_native") else 1
    for _ in range(reps):
        r = _h_shape(P, S)
        if r is not True:
            return r
    return True


def _h_shape(P, S):
    scheme = P["scheme"]
    cfg0 = PL.small_config(scheme, P.get("over"))
    a = P["a"]
    x = S.pick("x", 1, MAX_X) if a else 1
    n1 = S.pick("n1", 0, P.get("max_n1", MAX_N1))
    n2 = S.pick("n2", 0, MAX_N2)
    lens = profile(a, x, n1, n2)
    if not lens or not _valid(scheme, cfg0, lens):
        return True
    rep = REPS[pi(scheme, cfg0, lens)]
    if P.get("twin"):
        return False
    P2 = dict(P)
    P2["concrete_ids"] = True
    if P.get("warm") is not None:
        # history: the process has built an index of another configuration (other length classes) before
        PL.begin(P)
        wcfg = PL.small_config(scheme, P["warm"])
        PL.build(scheme, wcfg, PL.make_db(P2, S, scheme, wcfg, [2, 1] if _valid(scheme, wcfg, [2, 1]) else [1]))
    shapes = []
    for prof in (lens, rep):
        PL.begin(P)
        cfg = PL.small_config(scheme, P.get("over"))
        db = PL.make_db(P2, S, scheme, cfg, prof)
        if scheme == "CGKO06.SSE2":
            cfg["param_n"] = 64                      # configured capacity, the same for both databases
        mod, s, K, edb = PL.build(scheme, cfg, db)
        m = members(edb)
        tables = []
        for name, v in m.items():
            _tables(name, v, tables)
        for name, v in m.items():
            # arrays of encrypted blocks held directly by the index (SSE-1, PiPtr, Pi2Lev): one cell length
            if isinstance(v, list) and len({len(c) for c in v if isinstance(c, (bytes, bytearray))}) > 1:
                return S.fail("array-cell-lengths-differ:%s" % name)
        for name, t in tables:
            if len({len(k) for k in t if isinstance(k, (bytes, bytearray))}) > 1:
                return S.fail("table-key-lengths-differ:%s" % name.split("[")[0])
            if len({len(v) for v in t.values()}) > 1:
                return S.fail("table-value-lengths-differ:%s" % name.split("[")[0])
        shapes.append(m)
    d = _diff(shapes[0], shapes[1])
    if d:
        return S.fail("shape-differs:" + d)
    return True


def obligations(tier, seed):
    from harness.c01 import CONFIGS
    obs = []
    for scheme in PL.SCHEMES:
        cfgs = CONFIGS[scheme][:1] if tier == "quick" else CONFIGS[scheme][:3]
        for ci, over in enumerate(cfgs):
            for a in range(0, MAX_A + 1):
                if tier == "quick" and a in (2, 4):
                    continue
                obs.append(ob("c05.%s.cfg%d.a%d" % (scheme, ci, a), "harness.c05", "h_shape",
                              {"scheme": scheme, "over": over, "a": a, "seed": seed,
                               "max_n1": 3 if tier == "quick" else MAX_N1}, budget_s=400,
                              max_cex=200 if scheme == "ANSS16.Scheme3" else 4))
    # configurations in which the cipher-block boundary falls between the two kinds of array cells / chunks
    uneven = {"param_B": 31, "param_b": 31, "param_B_prime": 2, "param_b_prime": 2, "param_identifier_size": 1}
    obs.append(ob("c05.CJJ14.Pi2Lev.uneven", "harness.c05", "h_shape",
                  {"scheme": "CJJ14.Pi2Lev", "over": uneven, "a": 0, "seed": seed, "mult": 21, "max_n1": 5},
                  budget_s=400))
    # SSE-1: node = identifier || key || address; fillers must have the length of an encrypted node, which only
    # shows when identifier_size + param_k sits just below a cipher-block boundary
    for ci, over in enumerate(({"param_identifier_size": 7}, {"param_k": 16, "param_identifier_size": 15})):
        obs.append(ob("c05.CGKO06.SSE1.straddle%d" % ci, "harness.c05", "h_shape",
                      {"scheme": "CGKO06.SSE1", "over": over, "a": 1, "seed": seed, "max_n1": 2}, budget_s=400))
    # the second configuration of every scheme (other key / label / block lengths, e.g. ANSS16 with l != l') also in
    # the quick tier, on two profile families
    if tier == "quick":
        for scheme in PL.SCHEMES:
            if len(CONFIGS[scheme]) > 1:
                for a in (1, 3):
                    obs.append(ob("c05.%s.cfg1.a%d" % (scheme, a), "harness.c05", "h_shape",
                                  {"scheme": scheme, "over": CONFIGS[scheme][1], "a": a, "seed": seed, "max_n1": 3},
                                  budget_s=400))
    # identifier sizes on a cipher-block boundary (PKCS7 adds a whole block at 16, 32), after the process has
    # already built an index with the small default identifier size (no length may be remembered across objects)
    for scheme in PL.SCHEMES:
        for size in (16,) if tier == "quick" else (15, 16, 17, 32):
            over = {"param_identifier_size": size}
            if scheme == "CGKO06.SSE1":
                over.update(param_s=32)
            for a in (1, 3):
                obs.append(ob("c05.%s.idsize%d.warm.a%d" % (scheme, size, a), "harness.c05", "h_shape",
                              {"scheme": scheme, "over": over, "warm": {}, "a": a, "seed": seed, "max_n1": 3},
                              budget_s=400, max_cex=200 if scheme == "ANSS16.Scheme3" else 4))
    # PiPtr with fewer pointers than identifiers per block (the quick tier's first configuration has b == B)
    if tier == "quick":
        for over in ({"param_B": 3, "param_b": 2}, {"param_B": 4, "param_b": 2}):
            for a in (1, 3):
                obs.append(ob("c05.CJJ14.PiPtr.B%db%d.a%d" % (over["param_B"], over["param_b"], a), "harness.c05",
                              "h_shape", {"scheme": "CJJ14.PiPtr", "over": over, "a": a, "seed": seed, "max_n1": 3},
                              budget_s=400))
    if tier == "quick":
        for a in (0, 1, 3):
            obs.append(ob("c05.DP17.Pi.L2.a%d" % a, "harness.c05", "h_shape",
                          {"scheme": "DP17.Pi", "over": {"param_L": 2}, "a": a, "seed": seed, "max_n1": 3},
                          budget_s=400))
    obs.append(twin("c05.twin", "harness.c05", "h_shape", {"scheme": "CJJ14.PiBas", "over": {}, "a": 1, "twin": True}))
    return obs
