"""C03 - client/server split: search works from serialized key, token and index alone."""
import copy
import json

from harness import pipeline as PL
from harness.common import ob, twin

META = {
    "level": "other",
    "explanation": "bounded symbolic execution (CrossHair/z3) of the real (de)serialisers and of the real pipeline split "
                   "into a 'client' and a 'server' instance: (a) every *Key and *Token class is filled with SYMBOLIC "
                   "byte fields whose lengths are exactly those KeyGen/TokenGen produce under the configuration, and "
                   "deserialize(serialize(x), cfg) == x is decided by z3 for all field contents, for a grid of "
                   "configurations in which key, label and address widths differ from each other; (b) the server "
                   "side gets only json.loads(json.dumps(cfg)), EDB.serialize() and Token.serialize(), the client "
                   "reloads its key from Key.serialize() in a fresh scheme instance, and the deserialised result "
                   "must equal DB.get(w, empty) for a solver-chosen present or absent keyword; every "
                   "deserialize(serialize(x)) == x on the way.",
    "bounds": {"width grid": "key/label lengths from {8,16,20,24,32,48} where the primitives allow (AES keys "
                             "16/24/32), SSE-1 address widths 1 and 2 bytes", "databases": "<= 3 keywords, <= 5 postings "
                             "each, concrete contents in (b) (pickling realises them)"},
    "outside_bounds": "other widths; pickle itself (trusted)",
    "stubs": ["as C01 (ideal primitives); pickle/json on realised data"],
    "assumptions": ["ideal primitives"],
    "functions": ["schemes.*.structures.*.{serialize,deserialize,__eq__}", "schemes.*.config.*Config",
                  "schemes.load_sse_module", "schemes.interface.module_loader.SSEModuleClassLoader.*"],
}

def prepare(P):
    PL.prepare(P)
    if not P.get("_native"):
        # contents are concrete in this property: DP17 keeps the real builtin set (its result must unpickle
        # as a set for PiResult.deserialize)
        import schemes.DP17.Pi.construction as dp
        if "set" in dp.__dict__:
            del dp.set

GRID = {
    "CJJ14.PiBas": [{}, {"param_lambda": 16, "prf_f_output_length": 16}, {"param_lambda": 24, "prf_f_output_length": 24}],
    "CJJ14.PiPack": [{}, {"param_lambda": 16, "prf_f_output_length": 16}],
    "CJJ14.PiPtr": [{}, {"param_lambda": 24, "prf_f_output_length": 24}],
    "CJJ14.Pi2Lev": [{}, {"param_lambda": 16, "prf_f_output_length": 16}],
    "CT14.Pi": [{}, {"param_k": 16, "param_k_prime": 32, "param_l": 8}, {"param_k": 32, "param_k_prime": 16, "param_l": 20},
                {"param_k": 24, "param_k_prime": 24, "param_l": 48}, {"param_k": 20, "param_k_prime": 16, "param_l": 16}],
    "ANSS16.Scheme3": [{}, {"param_lambda": 16, "param_k": 32, "param_k_prime": 32, "param_l": 8, "param_l_prime": 20},
                       {"param_lambda": 48, "param_k": 16, "param_k_prime": 16, "param_l": 32, "param_l_prime": 8},
                       {"param_lambda": 8, "param_k": 24, "param_k_prime": 24, "param_l": 20, "param_l_prime": 20}],
    "DP17.Pi": [{}, {"param_lambda": 16}, {"param_lambda": 24, "param_L": 2}],
    "CGKO06.SSE1": [{}, {"param_k": 16, "param_l": 8, "param_s": 512, "param_dictionary_size": 8},
                    {"param_k": 32, "param_l": 2, "param_s": 32}],
    "CGKO06.SSE2": [{}, {"param_k": 16, "param_l": 8}],
}


def _fields(obj):
    return [getattr(obj, n) for n in type(obj).__slots__]


def _symbolic_like(S, obj, tag):
    """an object of the same class whose bytes fields are symbolic byte strings of the same lengths"""
    cls = type(obj)
    vals = []
    for i, v in enumerate(_fields(obj)):
        if isinstance(v, (bytes, bytearray)):
            vals.append(S.bytes("%s_f%d" % (tag, i), len(v)))
        else:
            vals.append(v)
    return cls(*vals)


def h_roundtrip(P, S):
    """(a) key / token wire formats with symbolic contents"""
    scheme = P["scheme"]
    PL.begin(P)
    cfg = PL.small_config(scheme, P.get("over"))
    db = PL.make_db(dict(P, concrete_ids=True), S, scheme, cfg, [2, 1])
    mod, s, K, edb = PL.build(scheme, cfg, db)
    cfg2 = json.loads(json.dumps(cfg))
    conf = mod.SSEConfig(cfg2)
    w = list(db.keys())[0]
    tk = s.TokenGen(K, w)
    if P.get("twin"):
        return False
    for name, obj, cls in (("key", K, mod.SSEKey), ("token", tk, mod.SSEToken)):
        # the concrete object produced by the scheme survives
        back = cls.deserialize(obj.serialize(), conf)
        if not isinstance(back, cls) or not (back == obj):
            return S.fail("%s-roundtrip-concrete" % name)
        # ... and so does every object of the same field lengths (symbolic contents); formats that go through
        # pickle would realise (= enumerate) symbolic contents, so they are checked on the concrete object only
        if (scheme, name) in (("DP17.Pi", "token"), ("CGKO06.SSE2", "token")):
            continue
        sym = _symbolic_like(S, obj, name)
        back = cls.deserialize(sym.serialize(), conf)
        if not isinstance(back, cls):
            return S.fail("%s-roundtrip-type" % name)
        for a, b in zip(_fields(sym), _fields(back)):
            if isinstance(a, (bytes, bytearray)):
                if len(a) != len(b) or a != b:
                    return S.fail("%s-roundtrip-symbolic" % name)
        if back.serialize() != sym.serialize():
            return S.fail("%s-reserialize" % name)
    # wrong total length is refused (fixed-width formats only)
    for name, obj, cls in (("key", K, mod.SSEKey), ("token", tk, mod.SSEToken)):
        raw = obj.serialize()
        if scheme in ("DP17.Pi", "CGKO06.SSE2") and name == "token":
            continue
        try:
            cls.deserialize(raw + b"\x00", conf)
            return S.fail("%s-overlong-accepted" % name)
        except ValueError:
            pass
    return True


def h_split(P, S):
    """(b) client / server instances that share only the wire formats"""
    scheme = P["scheme"]
    PL.begin(P)
    from schemes import load_sse_module
    cfg = PL.small_config(scheme, P.get("over"))
    db = PL.make_db(dict(P, concrete_ids=True), S, scheme, cfg, P["lens"])
    cfg_wire = json.dumps(cfg)
    # client, first session: key + index
    mod = load_sse_module(json.loads(cfg_wire)["scheme"])
    client1 = mod.SSEScheme(json.loads(cfg_wire))
    conf1 = mod.SSEConfig(json.loads(cfg_wire))
    K = client1.KeyGen()
    key_wire = K.serialize()
    edb = client1.EDBSetup(K, db)
    edb_wire = edb.serialize()
    if not (mod.SSEEncryptedDatabase.deserialize(edb_wire, conf1) == edb):
        return S.fail("edb-roundtrip")
    if not (mod.SSEKey.deserialize(key_wire, conf1) == K):
        return S.fail("key-roundtrip")
    # client, second session (fresh instance, key from its serialized form)
    client2 = mod.SSEScheme(json.loads(cfg_wire))
    conf2 = mod.SSEConfig(json.loads(cfg_wire))
    K2 = mod.SSEKey.deserialize(key_wire, conf2)
    words = list(db.keys()) + [b"zz", b"q"]
    w = words[S.pick("w", 0, len(words) - 1)]
    tk = client2.TokenGen(K2, w)
    tk_wire = tk.serialize()
    if P.get("twin"):
        return False
    # server: configuration from JSON, index and token from bytes only
    server = mod.SSEScheme(json.loads(cfg_wire))
    conf3 = mod.SSEConfig(json.loads(cfg_wire))
    edb_s = mod.SSEEncryptedDatabase.deserialize(edb_wire, conf3)
    tk_s = mod.SSEToken.deserialize(tk_wire, conf3)
    if not (tk_s == tk):
        return S.fail("token-roundtrip")
    res = server.Search(edb_s, tk_s)
    res_wire = res.serialize()
    # client again
    res_c = mod.SSEResult.deserialize(res_wire, conf2)
    if not isinstance(res_c, mod.SSEResult):
        return S.fail("result-deserialize-type")
    if not (res_c == res):
        return S.fail("result-roundtrip")
    if not PL.same(scheme, PL.as_list(scheme, res_c), db.get(w, [])):
        return S.fail("split-search-wrong")
    return True


def obligations(tier, seed):
    obs = []
    q = tier == "quick"
    for scheme in PL.SCHEMES:
        grid = GRID[scheme] if not q else GRID[scheme][:3]
        for gi, over in enumerate(grid):
            obs.append(ob("c03.roundtrip.%s.g%d" % (scheme, gi), "harness.c03", "h_roundtrip",
                          {"scheme": scheme, "over": over, "seed": seed}, budget_s=300))
            for lens in ([[2, 1]] if q else [[2, 1], [1], [5, 3, 1], [4]]):
                obs.append(ob("c03.split.%s.g%d.%s" % (scheme, gi, "-".join(map(str, lens))), "harness.c03", "h_split",
                              {"scheme": scheme, "over": over, "lens": lens, "seed": seed}, budget_s=300))
    # indexes whose internal pointers / addresses are wider than one byte (> 255 array cells): a width that the
    # building instance remembers instead of the wire format carrying it only shows on such an index (Pi2Lev fixes
    # its index width in the configuration, so it has no such case)
    wide = [("CJJ14.PiPtr", {"param_B": 1, "param_b": 1, "param_identifier_size": 2}, [300, 1]),
            ("CGKO06.SSE1", {"param_s": 512, "param_identifier_size": 2}, [200, 100, 1])]
    for scheme, over, lens in wide:
        obs.append(ob("c03.split.wide.%s" % scheme, "harness.c03", "h_split",
                      {"scheme": scheme, "over": over, "lens": lens, "seed": seed}, budget_s=900, per_path_s=300))
    obs.append(twin("c03.roundtrip.twin", "harness.c03", "h_roundtrip", {"scheme": "CT14.Pi", "over": {}, "twin": True}))
    obs.append(twin("c03.split.twin", "harness.c03", "h_split", {"scheme": "CT14.Pi", "over": {}, "lens": [2, 1], "twin": True}))
    return obs
