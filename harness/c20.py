"""C20 - persistent byte dictionaries vs. a plain dict (data_persistence.persistent_dict, bytes_shelf)."""
import os
import pickle
import shutil

from harness.common import ob, twin

META = {
    "level": "model_checking",
    "explanation": "one inductive step of the dictionary's operation set executed symbolically (CrossHair/z3) on a "
                   "scratch directory: the pre-state (each of 3 keys absent or holding one of two values; created / "
                   "from_dict / synced / reopened / closed) is built through the public API from solver-chosen "
                   "variables, one operation with symbolic key choice and value kind runs on the real PickledDict / DBMDict and on a dict model; observation, "
                   "exception type, full re-read and the state after an extra close+open are compared. Depth-2 "
                   "sequences cross-check the reachable-state argument.",
    "bounds": {"keys": "3-key universe (dict keys are hashed, hence concrete)", "values": "bytes, empty bytes, bytearray, str, int (contents "
               "concrete: pickling realises them)", "pre-states": "27 contents x 5 life-cycle states", "depth": "1 (+2 cross-check)"},
    "outside_bounds": "longer histories (by induction only over the bounded pre-state family), larger key universes, "
                      "DBMDict across close/reopen (does not work on the dbm.dumb backend of this image; baseline "
                      "records those tests as always failing)",
    "stubs": ["pickle.dumps/dump/loads are called on deep-realised arguments (C boundary)"],
    "assumptions": ["POSIX file semantics of the scratch directory"],
    "functions": ["data_persistence.persistent_dict.PickledDict.*", "data_persistence.persistent_dict.DBMDict.*",
                  "data_persistence.bytes_shelf.BytesShelf.*", "data_persistence.interfaces.PersistentBytesDict.*"],
}

KEYS = [b"a", b"bb", b"c"]
_CTR = [0]


def _mkdir(P):
    _CTR[0] += 1
    d = os.path.join(P["_scratch"], "d%d" % _CTR[0])
    os.mkdir(d)
    return d


def _cls(P):
    from data_persistence.persistent_dict import PickledDict, DBMDict
    return PickledDict if P["cls"] == "pickled" else DBMDict


def _build(P, S, d):
    """pre-state through the public API. returns (obj, model, closed?)"""
    cls = _cls(P)
    path = os.path.join(d, "p")
    model = {}
    for i, k in enumerate(KEYS):
        st = S.pick("k%d" % i, 0, P.get("max_val", 2))            # 0 absent, 1 value one, 2 value two
        if st:
            model[k] = bytes([0x10 + i]) if st == 1 else b""      # value two is the EMPTY byte string
    life = S.choice("life", P["lives"])
    if life == "from_dict":
        src = dict(model)
        p = cls.from_dict(src, path)
        src[b"zz"] = b"later"                    # aliasing: later changes of the source must not show
        src.pop(KEYS[0], None)
    else:
        p = cls.create(path)
        for k, v in model.items():
            p[k] = v
    if life == "synced":
        p.sync()
    elif life == "reopened":
        p.close()
        p = cls.open(path)
    elif life == "closed":
        p.close()
        return p, path, model, True
    return p, path, model, False


OPS = ["set", "get", "del", "contains", "len", "iter", "getdefault", "clear", "sync", "close", "reopen", "update2"]


def _apply(P, S, p, path, model, op, tag):
    """returns (failure tag or None, possibly replaced object)"""
    cls = _cls(P)
    exp_exc = got_exc = None
    exp = obs = None
    key = S.choice(tag + "key", KEYS) if op in ("set", "get", "del", "contains", "getdefault") else None
    if op == "set":
        kind = S.choice(tag + "vk", P.get("set_kinds") or ["bytes", "bytearray", "empty", "str", "int"])
        if kind == "bytes":
            v = b"\x7f\x01"         # contents stay concrete: pickling would realise (= enumerate) them
        elif kind == "bytearray":
            v = bytearray(b"\x01\x02")
        elif kind == "empty":
            v = b""
        elif kind == "str":
            v = "ab"
        else:
            v = 5
        if kind in ("str", "int"):
            exp_exc = TypeError
        else:
            model[key] = v
        try:
            p[key] = v
        except Exception as e:
            got_exc = type(e)
    elif op == "get":
        if key in model:
            exp = model[key]
        else:
            exp_exc = KeyError
        try:
            obs = p[key]
        except Exception as e:
            got_exc = type(e)
    elif op == "del":
        if key in model:
            del model[key]
        else:
            exp_exc = KeyError
        try:
            del p[key]
        except Exception as e:
            got_exc = type(e)
    elif op == "contains":
        exp, obs = key in model, key in p
    elif op == "len":
        exp, obs = len(model), len(p)
    elif op == "iter":
        exp, obs = sorted(model), sorted(p)
    elif op == "getdefault":
        exp, obs = model.get(key, b"dflt"), p.get(key, b"dflt")
        if p.get(key) != model.get(key):
            return "get-without-default", p
    elif op == "clear":
        model.clear()
        p.clear()
    elif op == "sync":
        p.sync()
        if P["cls"] == "pickled":
            with open(path, "rb") as f:
                on_disk = pickle.load(f)
            if on_disk != model:
                return "sync-did-not-persist", p
    elif op == "close":
        p.close()
        p = None
    elif op == "reopen":
        p.close()
        p = cls.open(path)
    elif op == "update2":
        # set then delete the same key (write-back cache must forget it), then read everything
        k2 = S.choice(tag + "k2", KEYS)
        p[k2] = b"tmp"
        model[k2] = b"tmp"
        if S.bool(tag + "readback"):
            if p[k2] != b"tmp":
                return "readback", p
        del p[k2]
        del model[k2]
        try:
            p[k2]
            return "deleted-key-still-readable", p
        except KeyError:
            pass
    if exp_exc != got_exc:
        return "exception-mismatch:%s exp=%s got=%s" % (op, exp_exc and exp_exc.__name__, got_exc and got_exc.__name__), p
    if obs != exp:
        return "observation:" + op, p
    return None, p


def _full(p):
    return {k: p[k] for k in p}


_CLOSED_OPS = ["set", "get", "del", "contains", "len", "iter", "getdefault", "clear", "sync"]


def h_step(P, S):
    cls = _cls(P)
    d = _mkdir(P)
    p = None
    try:
        p, path, model, closed = _build(P, S, d)
        op = P["op"]
        if closed:
            if op not in _CLOSED_OPS:
                return True
            try:
                if op == "set":
                    p[KEYS[0]] = b"x"
                elif op == "get":
                    p[KEYS[0]]
                elif op == "del":
                    del p[KEYS[0]]
                elif op == "contains":
                    KEYS[0] in p
                elif op == "len":
                    len(p)
                elif op == "iter":
                    list(p)
                elif op == "getdefault":
                    p.get(KEYS[0], b"d")
                elif op == "clear":
                    p.clear()
                elif op == "sync":
                    p.sync()
            except Exception as e:
                # the quantifier names ValueError for the mapping operations; for sync() the statement only
                # says "raises" (DBMDict's closed marker has no sync attribute -> AttributeError, still loud)
                if not isinstance(e, ValueError) and op != "sync":
                    return S.fail("closed-op-raised-%s:%s" % (type(e).__name__, op))
                if P["cls"] == "pickled":
                    q = cls.open(path)
                    ok = _full(q) == model
                    q.close()
                    return True if ok else S.fail("closed-op-changed-contents:" + op)
                return True
            return S.fail("closed-op-did-not-raise:" + op)
        if P.get("twin"):
            return False
        bad, p = _apply(P, S, p, path, model, op, "o")
        if bad:
            return S.fail(bad)
        if p is not None:
            if _full(p) != model or len(p) != len(model):
                return S.fail("full-read-after:" + op)
            if P["cls"] == "pickled":
                p.close()
                p = cls.open(path)
                if _full(p) != model:
                    return S.fail("reopen-after:" + op)
        elif P["cls"] == "pickled":
            p = cls.open(path)
            if _full(p) != model:
                return S.fail("reopen-after-close")
        return True
    finally:
        try:
            if p is not None:
                p.close()
        except Exception:
            pass
        shutil.rmtree(d, ignore_errors=True)


def h_seq2(P, S):
    cls = _cls(P)
    d = _mkdir(P)
    p = None
    try:
        p, path, model, closed = _build(P, S, d)
        for step in range(2):
            op = S.choice("op%d" % step, P["seq_ops"])
            bad, p = _apply(P, S, p, path, model, op, "s%d" % step)
            if bad:
                return S.fail("step%d:%s" % (step, bad))
        if _full(p) != model:
            return S.fail("full-read")
        if P["cls"] == "pickled":
            p.close()
            p = cls.open(path)
            if _full(p) != model:
                return S.fail("reopen")
        return True
    finally:
        try:
            if p is not None:
                p.close()
        except Exception:
            pass
        shutil.rmtree(d, ignore_errors=True)


def h_lifecycle(P, S):
    cls = _cls(P)
    d = _mkdir(P)
    try:
        path = os.path.join(d, "p")
        try:
            cls.open(path)
            return S.fail("open-missing-accepted")
        except FileNotFoundError:
            pass
        with open(path, "wb") as f:
            pickle.dump({}, f)
        try:
            cls.create(path)
            return S.fail("create-over-existing-accepted")
        except FileExistsError:
            pass
        os.unlink(path)
        p = cls.create(path)
        p[b"k"] = b"v"
        p.close()
        p.close()                                  # closing twice is harmless
        if P["cls"] == "pickled":
            with cls.open(path) as q:
                if _full(q) != {b"k": b"v"}:
                    return S.fail("context-manager")
            try:
                len(q)
                return S.fail("context-exit-did-not-close")
            except ValueError:
                pass
            q = cls.open(path)
            q.release()
            if os.path.exists(path):
                return S.fail("release-left-file")
        return True
    finally:
        shutil.rmtree(d, ignore_errors=True)


def obligations(tier, seed):
    obs = []
    q = tier == "quick"
    for clsname in ("pickled", "dbm"):
        lives = ["created", "from_dict", "synced", "reopened", "closed"] if clsname == "pickled" else \
            ["created", "from_dict", "synced", "closed"]
        for op in OPS:
            if clsname == "dbm" and op == "reopen":
                continue
            for life in lives:
                if life == "closed" and op not in _CLOSED_OPS:
                    continue
                obs.append(ob("c20.%s.step.%s.%s" % (clsname, op, life), "harness.c20", "h_step",
                              {"cls": clsname, "op": op, "lives": [life]}, budget_s=200))
        seq_ops = ["set", "del", "clear", "sync", "reopen", "get"] if clsname == "pickled" else \
            ["set", "del", "clear", "sync", "get"]
        for life in (["created", "reopened"] if clsname == "pickled" else ["created"]):
            obs.append(ob("c20.%s.seq2.%s" % (clsname, life), "harness.c20", "h_seq2",
                          {"cls": clsname, "lives": [life], "seq_ops": seq_ops, "max_val": 1,
                           "set_kinds": ["bytes", "str"]}, budget_s=600 if q else 1500))
        obs.append(ob("c20.%s.lifecycle" % clsname, "harness.c20", "h_lifecycle", {"cls": clsname}))
    obs.append(twin("c20.step.twin", "harness.c20", "h_step",
                    {"cls": "pickled", "op": "get", "lives": ["created"], "twin": True}))
    return obs
