"""C07 - setup and search leave their inputs intact; searches repeat in any order."""
import copy

from harness import pipeline as PL
from harness.common import ob, twin

META = {
    "level": "model_checking",
    "explanation": "one-step induction instead of search histories, executed symbolically (CrossHair/z3) on the real "
                   "schemes under ideal primitives: (a) deep copies of DB, of the configuration dict, of every "
                   "scheme's shared DEFAULT_CONFIG and of K.serialize() taken before SSEScheme()/EDBSetup equal the "
                   "originals afterwards; (b) for a symbolic choice of keyword (stored ones and a symbolic absent "
                   "one) EDB.serialize() and Token.serialize() are byte-identical before and after Search and the "
                   "result is the single-search answer. Since the post-state equals the pre-state, any finite "
                   "search history is a repetition of independent single searches; a depth-3 sequence with "
                   "symbolic keyword choices is kept as a cross-check.",
    "bounds": {"profiles": "list-length profiles incl. N a power of two with non-power-of-two lists, N <= 16",
               "keywords": "<= 4 stored + 1 symbolic absent (2 bytes)", "depth": "1 (induction) + 3 (cross-check)",
               "caller behaviour": "the delivered result container is emptied by the caller after every search",
               "configurations": "small block parameters; one per scheme with every primitive name in another accepted spelling"},
    "outside_bounds": "larger databases; bit patterns of the primitives",
    "stubs": ["as C01 (ideal primitives)"],
    "assumptions": ["ideal primitives; deepcopy/== are faithful observers of the caller's objects"],
    "functions": ["schemes.*.construction.{__init__,_Enc,_Trap,_Search}", "schemes.*.config.*Config.__init__",
                  "schemes.interface.config.SSEConfig.get_default_config"],
}

prepare = PL.prepare


def _defaults():
    from schemes import load_sse_module
    return {s: copy.deepcopy(load_sse_module(s).SSEConfig.get_default_config()) for s in PL.SCHEMES}


def _defaults_same(snap):
    from schemes import load_sse_module
    for s in PL.SCHEMES:
        if load_sse_module(s).SSEConfig.get_default_config() != snap[s]:
            return False
    return True


def h_setup_pure(P, S):
    scheme = P["scheme"]
    PL.begin(P)
    from schemes import load_sse_module
    mod = load_sse_module(scheme)
    defaults = _defaults()
    cfg = PL.small_config(scheme, P.get("over"))
    if P.get("alias"):
        # another accepted spelling of every primitive name (look-ups ignore case and the separator)
        cfg.update({k: v.lower().replace("-", "_") for k, v in cfg.items() if isinstance(v, str) and k != "scheme"})
    db = PL.make_db(P, S, scheme, cfg, P["lens"])
    cfg_snap = copy.deepcopy(cfg)
    db_snap = {k: list(v) for k, v in db.items()}
    keys_snap = list(db.keys())
    s = mod.SSEScheme(cfg)
    if cfg != cfg_snap:
        return S.fail("config-dict-mutated-by-constructor")
    if not _defaults_same(defaults):
        return S.fail("shared-default-config-mutated-by-constructor")
    K = s.KeyGen()
    k_snap = K.serialize()
    edb = s.EDBSetup(K, db)
    if P.get("twin"):
        return False
    if list(db.keys()) != keys_snap:
        return S.fail("db-keywords-changed")
    for k in keys_snap:
        if len(db[k]) != len(db_snap[k]):
            return S.fail("db-list-length-changed")
        for a, b in zip(db[k], db_snap[k]):
            if a is not b and a != b:
                return S.fail("db-identifier-changed")
    if cfg != cfg_snap:
        return S.fail("config-dict-mutated")
    if not _defaults_same(defaults):
        return S.fail("shared-default-config-mutated")
    if K.serialize() != k_snap:
        return S.fail("key-mutated")
    # a second setup over the same inputs still answers correctly (inputs really are intact)
    edb2 = s.EDBSetup(K, db)
    for w in db:
        if not PL.same(scheme, PL.search(scheme, s, K, edb2, w), db_snap[w]):
            return S.fail("second-setup-wrong")
    # the default constructor argument still means the pristine default configuration
    if mod.SSEConfig.get_default_config() != defaults[scheme]:
        return S.fail("default-config-changed")
    return True


def _pick_kw(S, name, db, absent):
    ws = list(db.keys()) + [absent]
    return ws[S.pick(name, 0, len(ws) - 1)]


def h_search_pure(P, S):
    scheme = P["scheme"]
    PL.begin(P)
    cfg = PL.small_config(scheme, P.get("over"))
    db = PL.make_db(P, S, scheme, cfg, P["lens"])
    absent = S.bytes("absent", 1, lo=1) + S.bytes("absent_tail", 1)
    for w in db:
        if len(w) == 2:
            S.assume(absent != w)
    mod, s, K, edb = PL.build(scheme, cfg, db)
    before = edb.serialize()
    if P.get("twin"):
        return False
    for step in range(P["depth"]):
        w = _pick_kw(S, "w%d" % step, db, absent)
        tk = s.TokenGen(K, w)
        tk_before = tk.serialize()
        res = s.Search(edb, tk)
        got = PL.as_list(scheme, res)
        if not PL.same(scheme, got, db.get(w, [])):
            return S.fail("answer-differs-from-single-search:step%d" % step)
        if tk.serialize() != tk_before:
            return S.fail("token-mutated")
        if edb.serialize() != before:
            return S.fail("edb-mutated")
        if s.TokenGen(K, w).serialize() != tk_before:
            return S.fail("token-not-deterministic")
        # the answer belongs to the caller: emptying the delivered container must not influence later searches
        res.get_result_list().clear()
    return True


QUICK = [[3, 5], [3, 1], [1], [2, 1, 1], [7, 2]]
THOROUGH = QUICK + [[4, 4], [5, 3, 8], [1, 1, 1, 1], [6, 2], [9, 4, 2]]


def obligations(tier, seed):
    from harness.c01 import CONFIGS, _fits
    obs = []
    profs = QUICK if tier == "quick" else THOROUGH
    for scheme in PL.SCHEMES:
        cfgs = CONFIGS[scheme][:2] if tier == "quick" else CONFIGS[scheme]
        for ci, over in enumerate(cfgs):
            for lens in profs:
                if not _fits(scheme, over, lens):
                    continue
                if tier == "quick" and ci > 0 and lens != [3, 5]:
                    continue
                nm = "%s.cfg%d.%s" % (scheme, ci, "-".join(map(str, lens)))
                obs.append(ob("c07.setup_pure." + nm, "harness.c07", "h_setup_pure",
                              {"scheme": scheme, "over": over, "lens": lens, "seed": seed}, budget_s=240))
                if ci == 0:
                    obs.append(ob("c07.search_pure." + nm, "harness.c07", "h_search_pure",
                                  {"scheme": scheme, "over": over, "lens": lens, "seed": seed, "depth": 1},
                                  budget_s=240))
        obs.append(ob("c07.search_seq3.%s" % scheme, "harness.c07", "h_search_pure",
                      {"scheme": scheme, "over": {}, "lens": [2, 1] if tier == "quick" else [3, 2, 1],
                       "seed": seed, "depth": 3}, budget_s=400))
    for scheme in PL.SCHEMES:
        obs.append(ob("c07.setup_pure.%s.alias" % scheme, "harness.c07", "h_setup_pure",
                      {"scheme": scheme, "over": {}, "lens": [2, 1], "seed": seed, "alias": True}, budget_s=240))
    # DP17 with locality > 1: lists that span several chunks (the only place where setup reorders postings)
    for lens in ([4, 3, 1], [2, 1]):
        over = {"param_L": 2, "param_actual_storage_level_ratio": 1.0}
        obs.append(ob("c07.setup_pure.DP17.Pi.L2.%s" % "-".join(map(str, lens)), "harness.c07", "h_setup_pure",
                      {"scheme": "DP17.Pi", "over": over, "lens": lens, "seed": seed}, budget_s=240))
    obs.append(twin("c07.setup.twin", "harness.c07", "h_setup_pure",
                    {"scheme": "CT14.Pi", "over": {}, "lens": [3, 1], "twin": True}))
    obs.append(twin("c07.search.twin", "harness.c07", "h_search_pure",
                    {"scheme": "CT14.Pi", "over": {}, "lens": [3, 1], "depth": 1, "twin": True}))
    return obs
