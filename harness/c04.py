"""C04 - the stored index and the tokens never expose keywords or identifiers; encryption is randomised."""
import os

from harness import pipeline as PL
from harness.common import ob, twin

META = {
    "level": "other",
    "explanation": "real ciphertext bytes cannot be reasoned about by a solver, so the property is decided in its "
                   "standard symbolic form, non-interference under ideal primitives, by bounded symbolic execution "
                   "(CrossHair/z3) of the real EDBSetup/TokenGen: (a) two databases of the same shape whose "
                   "identifier bytes are independent solver variables and whose keywords are two different sets of "
                   "equal lengths are set up with the same coin stream; the in-memory index and every serialized "
                   "token must be EQUAL (they may depend on coins and lengths only) - an identifier or keyword that "
                   "reaches the index in the clear makes a leaf depend on a symbolic input and z3 returns two "
                   "databases that differ there; (b) the same database under two different keys on one continuing "
                   "oracle: no label / address / token field may repeat (labels are keyed); (c) randomisation from "
                   "the coin log: every encryption used its own fresh os.urandom(16) value as IV, IVs of two setups "
                   "are disjoint, and the IV is the ciphertext prefix. The native replay states the property "
                   "literally (byte-substring search with the real primitives).",
    "bounds": {"profiles": "<= 3 keywords, list-length profiles covering every storage case of the small "
               "configurations (incl. Pi2Lev's medium and large cases)", "identifiers": "1-2 symbolic bytes each"},
    "outside_bounds": "secrecy of AES/HMAC themselves; SSE-2 identifier values (stored in the clear by construction)",
    "stubs": ["as C01 (ideal primitives); coins are a deterministic function of a counter, so two runs with the same "
              "query order see the same coins"],
    "assumptions": ["ideal primitives: outputs are fresh coins independent of their inputs"],
    "functions": ["schemes.*.construction.{_Enc,_Trap}", "toolkit.symmetric_encryption.aes.AESxCBC.Encrypt",
                  "toolkit.prf.hmac_prf.HmacPRF.__call__"],
}

prepare = PL.prepare

KW_A = [b"kw", b"kwx", b"b", b"quad"]
KW_B = [b"zq", b"zqy", b"c", b"four"]


def _members(edb):
    return {n: getattr(edb, n) for n in type(edb).__slots__}


def _diff(a, b, path, exempt_values=False):
    """first structural difference between two index members (leaves compared with ==, possibly symbolic)"""
    if isinstance(a, dict) and isinstance(b, dict):
        if list(a.keys()) != list(b.keys()):
            return path + ":keys"
        for k in a:
            if exempt_values:
                if len(a[k]) != len(b[k]):
                    return path + ":value-length"
                continue
            d = _diff(a[k], b[k], path + "[.]")
            if d:
                return d
        return None
    if isinstance(a, (list, tuple)) and isinstance(b, (list, tuple)):
        if len(a) != len(b):
            return path + ":len"
        for i in range(len(a)):
            d = _diff(a[i], b[i], path + "[%d]" % i)
            if d:
                return d
        return None
    if a is None or b is None:
        return None if a is b else path + ":none"
    if isinstance(a, (bytes, bytearray)) or hasattr(a, "inner"):
        if len(a) != len(b):
            return path + ":length"
        return None if a == b else path + ":bytes"
    return None if a == b else path + ":value"


def _setup(P, S, scheme, kws, tag):
    PL.begin(P)
    cfg = PL.small_config(scheme, P.get("over"))
    P2 = dict(P)
    db = PL.make_db(P2, _Tagged(S, tag), scheme, cfg, P["lens"], keywords=kws)
    mod, s, K, edb = PL.build(scheme, cfg, db)
    toks = [s.TokenGen(K, w).serialize() for w in db]
    return db, edb, toks


class _Tagged:
    """prefixes the names of the symbolic inputs so that two databases get independent variables"""

    def __init__(self, S, tag):
        self.S, self.tag = S, tag

    def ident(self, name, size, zero_free_pos=None):
        return self.S.ident(self.tag + name, size, zero_free_pos)

    def distinct(self, ids):
        return self.S.distinct(ids)

    def __getattr__(self, n):
        return getattr(self.S, n)


def h_noninterference(P, S):
    scheme = P["scheme"]
    if P.get("_native"):
        return _literal(P, S)
    db1, e1, t1 = _setup(P, S, scheme, KW_A, "x_")
    db2, e2, t2 = _setup(P, S, scheme, KW_B, "y_")
    if P.get("twin"):
        return False
    m1, m2 = _members(e1), _members(e2)
    for name in m1:
        d = _diff(m1[name], m2[name], name, exempt_values=(scheme == "CGKO06.SSE2"))
        if d:
            return S.fail("index-depends-on-keywords-or-identifiers:" + d)
    if len(t1) != len(t2):
        return S.fail("token-count")
    for a, b in zip(t1, t2):
        if len(a) != len(b) or a != b:
            return S.fail("token-depends-on-keyword")
    return True


def _leaves(x, out):
    if isinstance(x, dict):
        for k, v in x.items():
            _leaves(k, out)
            _leaves(v, out)
    elif isinstance(x, (list, tuple, set)):
        for v in x:
            _leaves(v, out)
    elif isinstance(x, (bytes, bytearray)):
        out.append(bytes(x))
    elif isinstance(x, int) and not isinstance(x, bool):
        out.append(x)
    return out


def h_keyed(P, S):
    """the same database under two keys, one continuing oracle: labels, addresses and token fields are keyed, so
    nothing may repeat (a label computed without the key would be the same oracle query twice)"""
    scheme = P["scheme"]
    if P.get("_native"):
        return _literal(P, S)
    PL.begin(P)
    from env import ideal
    cfg = PL.small_config(scheme, P.get("over"))
    db = PL.make_db(dict(P, concrete_ids=True), S, scheme, cfg, P["lens"], keywords=KW_A)
    mod, s, K1, e1 = PL.build(scheme, cfg, db)
    t1 = [s.TokenGen(K1, w) for w in db]
    n_iv1 = len(ideal.W.enc_calls)
    K2 = s.KeyGen()
    e2 = s.EDBSetup(K2, db)
    t2 = [s.TokenGen(K2, w) for w in db]
    if K1.serialize() == K2.serialize():
        return S.fail("two-keys-equal")
    # labels / table keys
    l1, l2 = [], []
    for name, v in _members(e1).items():
        if isinstance(v, dict):
            l1.extend(k for k in v.keys())
        elif isinstance(v, list):
            for t in v:
                if isinstance(t, dict):
                    l1.extend(t.keys())
    for name, v in _members(e2).items():
        if isinstance(v, dict):
            l2.extend(k for k in v.keys())
        elif isinstance(v, list):
            for t in v:
                if isinstance(t, dict):
                    l2.extend(t.keys())
    if scheme != "DP17.Pi" and set(l1) & set(l2):
        return S.fail("labels-repeat-under-a-different-key")
    if scheme == "DP17.Pi":
        a = set(_members(e1)["HT"].keys())
        b = set(_members(e2)["HT"].keys())
        if a & b:
            return S.fail("labels-repeat-under-a-different-key")
    for a, b in zip(t1, t2):
        fa = [x for x in _leaves([getattr(a, n) for n in type(a).__slots__], [])]
        fb = [x for x in _leaves([getattr(b, n) for n in type(b).__slots__], [])]
        if set(fa) & set(fb):
            return S.fail("token-fields-repeat-under-a-different-key")
    # randomisation: one fresh os.urandom(16) per encryption, used as IV and as ciphertext prefix
    ivs = [iv for (k, iv) in ideal.W.enc_calls]
    if len(set(ivs)) != len(ivs):
        return S.fail("iv-reused")
    fresh16 = [v for v in ideal.W.urandom_log if len(v) == 16]
    for iv in ivs:
        if iv not in fresh16:
            return S.fail("iv-not-from-os-urandom")
    if set(ivs[:n_iv1]) & set(ivs[n_iv1:]):
        return S.fail("iv-shared-between-two-setups")
    if P.get("twin"):
        return False
    # the two indexes share no ciphertext-bearing entry (the same statement the native replay makes)
    if scheme != "CGKO06.SSE2":
        k1, k2 = set(_table_keys(e1)), set(_table_keys(e2))
        c1 = {x for x in _leaves(list(_members(e1).values()), []) if isinstance(x, bytes) and len(x) >= 32} - k1
        c2 = {x for x in _leaves(list(_members(e2).values()), []) if isinstance(x, bytes) and len(x) >= 32} - k2
        if c1 & c2:
            return S.fail("ciphertexts-of-two-setups-not-disjoint")
    # every ciphertext the ideal cipher produced sits in the index right after its IV
    blob1 = b"|".join(x for x in _leaves(list(_members(e1).values()), []) if isinstance(x, bytes))
    stored = 0
    for (k, iv, ct, p) in ideal.W.enc[:n_iv1]:
        if k.strip(b"\x00") == b"":
            continue            # configuration probes such as len(Encrypt(zero_key, zero_message)) are not stored
        n_occ = blob1.count(iv + ct)
        if n_occ == 0 and scheme != "CGKO06.SSE2":
            return S.fail("stored-ciphertext-does-not-start-with-its-iv")
        if n_occ > 1:
            return S.fail("one-ciphertext-stored-twice")
        stored += n_occ
    # every ciphertext-bearing leaf is covered by distinct encryptions: entries that are not the output of an
    # encryption of their own (copies) show up as leaves longer than the encryptions found in them
    return True


def _literal(P, S):
    """native statement of the property with the real primitives: no keyword / identifier occurs as a byte
    substring of EDB.serialize() or of a token; ciphertext entries are pairwise distinct even when one identifier
    repeats under every keyword; entries of two setups under one key are disjoint"""
    from schemes import load_sse_module
    scheme = P["scheme"]
    for rep in range(3):
        # the same small block parameters as the symbolic run (so the same storage cases are reached), but 8-byte
        # identifiers and 6-byte keywords so that a chance occurrence is negligible
        cfg = PL.small_config(scheme, P.get("over"))
        if "param_identifier_size" in cfg:
            cfg["param_identifier_size"] = 8
        if scheme == "CGKO06.SSE1":
            cfg.update(param_s=256, param_dictionary_size=16, param_l=8)
        if scheme == "CGKO06.SSE2":
            cfg.update(param_max_file_size=64, param_l=8)
        size = cfg.get("param_identifier_size", 8)
        kws = [os.urandom(6) for _ in P["lens"]]
        shared = os.urandom(size)
        db = {}
        for k, n in zip(kws, P["lens"]):
            if n:
                db[k] = [shared] + [os.urandom(size) for _ in range(n - 1)]
        if rep == 2 and scheme not in ("CGKO06.SSE2", "DP17.Pi"):
            # "an identifier that occurs ... several times in one run": the first list repeats the shared identifier
            # often enough to fill two aligned blocks of the blocked schemes (the unchanged code accepts such lists)
            copies = 2 * int(cfg.get("param_B", 2))
            db[kws[0]] = [shared] * copies + db[kws[0]][1:]
            if scheme == "CJJ14.Pi2Lev":         # its two-level limit on the list length
                db[kws[0]] = db[kws[0]][:cfg["param_B"] * cfg["param_B_prime"] * cfg["param_b_prime"] - 1]
        if scheme == "CGKO06.SSE2":
            files = set()
            for v in db.values():
                files.update(v)
            cfg["param_n"] = len(files)
        mod = load_sse_module(scheme)
        s = mod.SSEScheme(cfg)
        K = s.KeyGen()
        e1, e2 = s.EDBSetup(K, db), s.EDBSetup(K, db)
        b1 = e1.serialize()
        toks = [s.TokenGen(K, w).serialize() for w in db]
        for w in db:
            if w in b1 or any(w in t for t in toks):
                return S.fail("keyword-in-clear")
            if scheme != "CGKO06.SSE2" and size >= 8:
                for i in db[w]:
                    if i in b1 or any(i in t for t in toks):
                        return S.fail("identifier-in-clear")
        if scheme != "CGKO06.SSE2":
            unit = None         # schemes that store several ciphertexts back to back in one entry
            if scheme == "DP17.Pi":
                unit = s.config.param_identifier_cipher_len
            elif scheme in ("CT14.Pi", "ANSS16.Scheme3"):
                unit = len(s.config.ske.Encrypt(b"\x00" * len(s.config.ske.KeyGen()), b"\x00" * size))

            def _split(xs):
                out = []
                for x in xs:
                    if unit and len(x) % unit == 0 and len(x) > unit:
                        out.extend(x[i:i + unit] for i in range(0, len(x), unit))
                    else:
                        out.append(x)
                return out
            c1 = _split([x for x in _leaves(list(_members(e1).values()), []) if isinstance(x, bytes) and len(x) >= 32])
            c2 = _split([x for x in _leaves(list(_members(e2).values()), []) if isinstance(x, bytes) and len(x) >= 32])
            vals1 = [x for x in c1 if x not in set(_table_keys(e1))]
            if len(set(vals1)) != len(vals1):
                return S.fail("equal-ciphertext-entries")
            k1 = set(_table_keys(e1))
            if (set(c1) - k1) & (set(c2) - set(_table_keys(e2))):
                return S.fail("ciphertexts-of-two-setups-not-disjoint")
    return True


def _table_keys(edb):
    out = []
    for v in _members(edb).values():
        if isinstance(v, dict):
            out.extend(k for k in v if isinstance(k, bytes))
        elif isinstance(v, list):
            for t in v:
                if isinstance(t, dict):
                    out.extend(k for k in t if isinstance(k, bytes))
    return out


PROFILES = {
    "default": [[2, 1], [3, 3, 1], [1]],
    "CJJ14.Pi2Lev": [[2, 1], [3, 4], [6, 1], [7, 5, 2]],
    "CJJ14.PiPtr": [[2, 1], [5, 3], [1]],
    "CT14.Pi": [[2, 1], [3, 4, 1], [4]],
    "ANSS16.Scheme3": [[2, 1], [3, 4, 1], [4]],
    "DP17.Pi": [[2, 1], [3, 3, 2], [1]],
}


def obligations(tier, seed):
    obs = []
    for scheme in PL.SCHEMES:
        profs = PROFILES.get(scheme, PROFILES["default"])
        if tier == "quick":
            profs = profs[:3]
        for lens in profs:
            tag = "-".join(map(str, lens))
            obs.append(ob("c04.noninterference.%s.%s" % (scheme, tag), "harness.c04", "h_noninterference",
                          {"scheme": scheme, "over": {}, "lens": lens, "seed": seed}, budget_s=400))
            obs.append(ob("c04.keyed.%s.%s" % (scheme, tag), "harness.c04", "h_keyed",
                          {"scheme": scheme, "over": {}, "lens": lens, "seed": seed}, budget_s=400))
    # exactly 256 encryptions per setup (a pool / counter of IVs wrapping at 2^8 would repeat between two setups)
    obs.append(ob("c04.keyed.CJJ14.PiBas.128-128", "harness.c04", "h_keyed",
                  {"scheme": "CJJ14.PiBas", "over": {}, "lens": [128, 128], "seed": seed}, budget_s=900, per_path_s=300))
    for lens in ([2, 1], [4, 3, 1]):
        tag = "-".join(map(str, lens))
        over = {"param_L": 2, "param_actual_storage_level_ratio": 1.0}
        obs.append(ob("c04.noninterference.DP17.Pi.L2.%s" % tag, "harness.c04", "h_noninterference",
                      {"scheme": "DP17.Pi", "over": over, "lens": lens, "seed": seed}, budget_s=400))
        obs.append(ob("c04.keyed.DP17.Pi.L2.%s" % tag, "harness.c04", "h_keyed",
                      {"scheme": "DP17.Pi", "over": over, "lens": lens, "seed": seed}, budget_s=400))
    obs.append(twin("c04.ni.twin", "harness.c04", "h_noninterference",
                    {"scheme": "CJJ14.PiBas", "over": {}, "lens": [2, 1], "twin": True}))
    obs.append(twin("c04.keyed.twin", "harness.c04", "h_keyed",
                    {"scheme": "CJJ14.PiBas", "over": {}, "lens": [2, 1], "twin": True}))
    return obs
