"""C12 - overlapping connections to one service are serialised and cannot roll state back."""
import pickle

from env import aio
from harness import frontend as FE
from harness.common import ob, twin

META = {
    "level": "model_checking",
    "explanation": "bounded schedule exploration by symbolic execution (CrossHair/z3): the real connector.handler / ServicesManager."
                   "create_service / clean_service_when_close_connection and the real Service objects run on the "
                   "cooperative asyncio runtime over the in-memory file system; the harness owns the external events "
                   "(connection i opens / delivers its next scripted request / closes; the k-th pending cleanup "
                   "delay expires) and the NEXT event is a solver-chosen index into the currently enabled set, so "
                   "every interleaving of the bounded scripts is a path. Checked on every path: no request of a "
                   "later-opened connection is answered while an earlier-opened one is still open; after "
                   "quiescence a probe connection is told a state >= every acknowledged transition; an "
                   "acknowledged index is the one searched.",
    "bounds": {"connections": "2 with scripts of <= 2 requests (quick), 3 with scripts of <= 1 request (thorough "
               "adds more script combinations)", "events": "open, request, close per connection; expiry of each "
               "cleanup delay as a separate schedulable event"},
    "outside_bounds": "more connections / longer scripts; the order in which asyncio runs tasks that become ready "
                      "in the same loop iteration (FIFO, as in asyncio); the websockets library",
    "stubs": ["asyncio -> env/aio.py (Lock with FIFO wake-up, create_task, sleep as a schedulable future)",
              "fake websockets; file manager over env/memfs.py; loggers silenced"],
    "assumptions": ["asyncio runs a task until its next await; the websockets library closes a connection whose "
                    "handler ended"],
    "functions": ["frontend.server.connector.handler", "frontend.server.services.services_manager.ServicesManager.{create_service,"
                  "clean_service_when_close_connection}", "frontend.server.services.service.Service.*",
                  "frontend.server.services.comm.send_message"],
}

prepare = FE.prepare

REQ = {
    "config": lambda: FE.msg("config", FE.SID, pickle.dumps(FE.FIX["c1"])),
    "upload1": lambda: FE.msg("upload_edb", FE.SID, FE.FIX["e1"]),
    "upload2": lambda: FE.msg("upload_edb", FE.SID, FE.FIX["e2"]),
    "search": lambda: FE.msg("token", FE.SID, FE.FIX["tokens"][b"kw"], token_digest=b"d"),
}


class Conn:
    def __init__(self, name, script):
        self.name, self.script = name, list(script)
        self.ws = None
        self.task = None
        self.opened_at = None
        self.closed_at = None
        self.pos = 0
        self.seen = 0          # frames already inspected
        self.upload_replies = 0
        self.served_step = None     # the step in which the server started to serve this connection


def _enabled(conns, rt):
    ev = []
    for c in conns:
        if c.ws is None:
            ev.append(("open", c))
        elif c.closed_at is None:
            if c.pos < len(c.script):
                ev.append(("req", c))
            ev.append(("close", c))
    for i, f in enumerate(rt.pending_sleeps()):
        ev.append(("tick", i))
    return ev


def h_sched(P, S):
    SV, SM = FE.FIX["mods"][0], FE.FIX["mods"][1]
    fs, rt = FE.world()
    FE.reset_server()
    # optional prefix: the service already has its configuration (and index)
    pre = P.get("pre_state", 0)
    if pre >= 1:
        ws0 = aio.FakeWS("pre")
        svc0 = SV.Service(FE.SID, ws0)
        svc0.handle_upload_config(pickle.dumps(FE.FIX["c1"]), {})
        if pre >= 2:
            svc0.handle_upload_encrypted_database(FE.FIX["e1"], {})
        rt.run_until_idle()
    conns = [Conn(n, s) for n, s in P["scripts"]]
    acked_state = pre
    acked_edb = "e1" if pre >= 2 else None
    trace = []
    step = 0
    viol = None
    while True:
        ev = _enabled(conns, rt)
        if not ev:
            break
        if step == 0 and P.get("first"):
            kind, who = [e for e in ev if e[0] == "open" and e[1].name == P["first"]][0]   # partition of the schedules
        else:
            kind, who = ev[S.pick("s%d" % step, 0, len(ev) - 1)]
        step += 1
        if kind == "open":
            who.ws = aio.FakeWS(who.name)
            who.opened_at = step
            who.task = FE.connect(rt, who.ws, FE.SID)
            ws = who.ws
            who.task.add_done_callback(lambda _t, ws=ws: ws.close_now())   # handler ended -> library closes
            trace.append("open " + who.name)
        elif kind == "req":
            who.ws.feed(REQ[who.script[who.pos]]())
            trace.append("req %s %s" % (who.name, who.script[who.pos]))
            who.pos += 1
        elif kind == "close":
            who.ws.close_now()
            who.closed_at = step
            trace.append("close " + who.name)
        else:
            rt.pending_sleeps()[who].set_result()
            trace.append("tick %d" % who)
        rt.run_until_idle()
        for c in conns:
            if c.ws is not None and c.ws.iterating and c.served_step is None:
                c.served_step = step
        # inspect what the server sent in this step
        for c in conns:
            if c.ws is None:
                continue
            fr = FE.frames(c.ws)
            for (t, content, _) in fr[c.seen:]:
                if t in ("config", "upload_edb", "result"):
                    earlier_open = [o for o in conns if o is not c and o.opened_at is not None
                                    and o.opened_at < c.opened_at and o.closed_at is None and not o.ws.closed.done_]
                    if earlier_open and viol is None:
                        viol = "request-answered-while-earlier-connection-open"
                    if t == "config" and isinstance(content, dict) and content.get("ok"):
                        if acked_state >= 1 and viol is None:
                            viol = "configuration-acknowledged-twice"      # write-once
                        acked_state = max(acked_state, 1)
                    if t == "upload_edb":
                        ups = [r for r in c.script if r.startswith("upload")]
                        which = ups[c.upload_replies] if c.upload_replies < len(ups) else None
                        c.upload_replies += 1
                        if isinstance(content, dict) and content.get("ok"):
                            if acked_edb is not None and viol is None:
                                viol = "index-acknowledged-twice"              # write-once
                            acked_state = 2
                            acked_edb = "e1" if which == "upload1" else "e2"
                    if t == "result" and not isinstance(content, dict):
                        if acked_edb is not None and content != FE.expected_result(acked_edb, b"kw") and viol is None:
                            viol = "search-not-from-acknowledged-index"
            c.seen = len(fr)
        if step > 40:
            return S.fail("schedule-did-not-terminate")
    # quiescence: everything closed, every cleanup delay expired
    for _ in range(8):
        pend = rt.pending_sleeps()
        if not pend:
            break
        for f in pend:
            f.set_result()
        rt.run_until_idle()
    if P.get("twin"):
        return False
    probe = aio.FakeWS("probe")
    FE.connect(rt, probe, FE.SID)
    rt.run_until_idle()
    fr = FE.frames(probe)
    if not fr or fr[0][0] != "init":
        if viol is None:
            viol = "probe-connection-not-accepted"
    else:
        st = fr[0][1].get("state")
        if st < acked_state and viol is None:
            viol = "acknowledged-state-%d-rolled-back-to-%d" % (acked_state, st)
        if viol is None and acked_edb is not None:
            probe.feed(REQ["search"]())
            rt.run_until_idle()
            fr = FE.frames(probe)
            res = [c for (t, c, _) in fr if t == "result"]
            if not res or res[-1] != FE.expected_result(acked_edb, b"kw"):
                viol = "acknowledged-index-lost"
    if viol is None:
        return True
    return S.fail(viol + " | " + "; ".join(trace))


QUICK_SCRIPTS = [
    (0, [("A", ["config"]), ("B", [])]),
    (0, [("A", ["config", "upload1"]), ("B", ["search"])]),
    (1, [("A", ["upload1"]), ("B", ["upload2"])]),
    (1, [("A", ["upload1", "search"]), ("B", [])]),
    (2, [("A", ["search"]), ("B", ["search"])]),
    (2, [("A", ["config"]), ("B", ["upload2"])]),
    (0, [("A", ["config"]), ("B", []), ("C", [])]),
    (2, [("A", []), ("B", []), ("C", ["search"])]),
]
THOROUGH_SCRIPTS = QUICK_SCRIPTS + [
    (0, [("A", ["config", "upload1"]), ("B", ["upload2", "search"])]),
    (1, [("A", ["upload1"]), ("B", ["upload2"]), ("C", ["search"])]),
    (0, [("A", ["config"]), ("B", ["upload1"]), ("C", ["search"])]),
    (2, [("A", ["search"]), ("B", ["search"]), ("C", ["search"])]),
]


def obligations(tier, seed):
    obs = []
    scripts = QUICK_SCRIPTS if tier == "quick" else THOROUGH_SCRIPTS
    for i, (pre, sc) in enumerate(scripts):
        name = "c12.sched.pre%d.%s" % (pre, "_".join("%s-%s" % (n, "+".join(s) or "idle") for n, s in sc))
        firsts = [n for n, _ in sc] if len(sc) >= 3 else [None]
        for first in firsts:
            obs.append(ob(name + (".first%s" % first if first else ""), "harness.c12", "h_sched",
                          {"pre_state": pre, "scripts": sc, "seed": seed, "first": first},
                          budget_s=1500 if tier == "quick" else 6000, max_cex=600))
    obs.append(twin("c12.twin", "harness.c12", "h_sched", {"pre_state": 0, "scripts": [("A", ["config"])], "twin": True}))
    return obs
