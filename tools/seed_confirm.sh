#!/bin/bash
# usage: seed_confirm.sh <ID> <mK>   - confirms a seeded change in a scratch worktree of /repo's HEAD:
#   demo passes on the clean tree, fails with the patch, the pinned test suite still passes with the patch.
# writes /tmp/mut/confirm/<ID>_<mK>.json ; removes the worktree afterwards.
set -u
ID=$1; M=$2; BASE=${MUT_BASE:-/tmp/mut/out}; TAG=${MUT_TAG:-}; SRC=$BASE/$ID/$M
WT=/tmp/mut/confirm_wt_${ID}_${TAG}${M}
OUT=/tmp/mut/confirm; mkdir -p $OUT
git -C /repo worktree remove --force $WT 2>/dev/null
git -C /repo worktree add -q --detach $WT HEAD || exit 2
cd $WT
HOME=$WT/.home; mkdir -p $HOME; export HOME
/venv/bin/python $SRC/demo.py > $OUT/${ID}_${TAG}${M}.clean.log 2>&1; CLEAN=$?
if git apply --3way $SRC/patch.diff 2>$OUT/${ID}_${TAG}${M}.apply.log || git apply $SRC/patch.diff 2>>$OUT/${ID}_${TAG}${M}.apply.log; then APPLY=0; else APPLY=1; fi
/venv/bin/python $SRC/demo.py > $OUT/${ID}_${TAG}${M}.mut.log 2>&1; MUT=$?
git diff HEAD > $OUT/${ID}_${TAG}${M}.patch.rebased.diff
nice -n 15 /venv/bin/python -m pytest -q -p no:cacheprovider --timeout=900 -x --deselect test/test_persistent_dict.py::TestDBMDict > $OUT/${ID}_${TAG}${M}.tests.log 2>&1; T=$?
TAIL=$(tail -1 $OUT/${ID}_${TAG}${M}.tests.log)
cd /; git -C /repo worktree remove --force $WT
printf '{"id":"%s","m":"%s","demo_clean_exit":%d,"patch_applies":%d,"demo_mutated_exit":%d,"tests_exit":%d,"tests_tail":"%s"}\n' "$ID" "$M" $CLEAN $APPLY $MUT $T "$TAIL" > $OUT/${ID}_${TAG}${M}.json
cat $OUT/${ID}_${TAG}${M}.json
