#!/usr/bin/env python3
"""re-runs the recorded check(s) for stored seeds against /repo's CURRENT HEAD (scratch worktree) and updates
meta.json.detection in place.  usage: seed_redetect.py <seed dir name> [note]"""
import json, os, subprocess, sys, tempfile
name = sys.argv[1]
note = sys.argv[2] if len(sys.argv) > 2 else None
d = "/verif/seeded/" + name
meta = json.load(open(d + "/meta.json"))
checks = [c.split()[1] for c in meta["detection"].get("checks_run", [])] or [meta["property"]]
wt = tempfile.mkdtemp(prefix="redet_", dir="/tmp"); os.rmdir(wt)
subprocess.run(["git", "-C", "/repo", "worktree", "add", "-q", "--detach", wt, "HEAD"], check=True)
try:
    r = subprocess.run(["git", "-C", wt, "apply", d + "/patch.diff"], capture_output=True, text=True)
    assert r.returncode == 0, r.stderr
    env = dict(os.environ, VERIF_REPO=wt, VERIF_EVIDENCE_DIR=wt + "/.evidence")
    detected = {}
    for c in checks:
        p = subprocess.run(["./check", c, "--tier", "quick"], cwd="/verif", capture_output=True, text=True, env=env)
        lines = [l for l in p.stdout.splitlines() if l.startswith("VIOLATION") or l.startswith("  obligation=")]
        obs = sorted({l.split("obligation=")[1].split(" ")[0] + " " + l.split("tag=")[1].split(" detail=")[0][:80]
                      for l in lines if l.startswith("  obligation=")})
        detected[c] = {"exit": p.returncode, "violations": sum(1 for l in lines if l.startswith("VIOLATION")),
                       "obligations": obs[:6], "inconclusive": sum(1 for l in p.stdout.splitlines() if l.startswith("INCONCLUSIVE"))}
finally:
    subprocess.run(["git", "-C", "/repo", "worktree", "remove", "--force", wt])
head = subprocess.run(["git", "-C", "/repo", "rev-parse", "--short", "HEAD"], capture_output=True, text=True).stdout.strip()
meta["detection"]["result"] = detected
meta["detection"]["detected"] = any(v["exit"] == 1 for v in detected.values())
meta["detection"]["against_repo_head"] = head
if note:
    meta["ported"] = note
json.dump(meta, open(d + "/meta.json", "w"), indent=1)
print(name, {k: (v["exit"], v["violations"]) for k, v in detected.items()})
