#!/usr/bin/env python3
"""re-runs every stored seeded change against the check(s) recorded as catching it (scratch worktrees, VERIF_REPO);
prints one line per seed and a summary.  usage: seed_regress.py [substring] ; env PAR (default 4), VERIF_JOBS"""
import json, os, subprocess, sys, tempfile, glob
from concurrent.futures import ThreadPoolExecutor

sub = sys.argv[1] if len(sys.argv) > 1 else ""
seeds = sorted(d for d in glob.glob("/verif/seeded/*") if sub in d and os.path.exists(d + "/meta.json"))


def run(d):
    meta = json.load(open(d + "/meta.json"))
    if meta.get("superseded"):
        return d, "SUPERSEDED", None
    det = meta.get("detection", {})
    checks = [c.split()[1] for c in det.get("checks_run", [])] or [meta["property"]]
    expected = bool(det.get("detected"))
    wt = tempfile.mkdtemp(prefix="regwt_", dir="/tmp"); os.rmdir(wt)
    subprocess.run(["git", "-C", "/repo", "worktree", "add", "-q", "--detach", wt, "HEAD"], check=True)
    try:
        r = subprocess.run(["git", "-C", wt, "apply", d + "/patch.diff"], capture_output=True, text=True)
        if r.returncode != 0:
            return d, "PATCH-DOES-NOT-APPLY", expected
        env = dict(os.environ, VERIF_REPO=wt, VERIF_EVIDENCE_DIR=wt + "/.evidence", VERIF_JOBS=os.environ.get("VERIF_JOBS", "5"))
        got = {}
        for c in checks:
            p = subprocess.run(["./check", c, "--tier", "quick"], cwd="/verif", capture_output=True, text=True, env=env)
            got[c] = p.returncode
        return d, got, expected
    finally:
        subprocess.run(["git", "-C", "/repo", "worktree", "remove", "--force", wt])


bad = 0
with ThreadPoolExecutor(int(os.environ.get("PAR", "4"))) as ex:
    for d, got, expected in ex.map(run, seeds):
        if got == "SUPERSEDED":
            print(os.path.basename(d), "superseded by a repair in /repo", flush=True)
            continue
        detected = isinstance(got, dict) and any(v == 1 for v in got.values())
        flag = "ok" if detected == expected else ("NOW-DETECTED" if detected else "LOST")
        if flag == "LOST":
            bad += 1
        print(os.path.basename(d), got, "expected_detected=%s" % expected, flag, flush=True)
print("seeds=%d lost=%d" % (len(seeds), bad))
