#!/usr/bin/env python3
"""stores a confirmed seeded change under /verif/seeded/<ID>-<m>/ and records which check catches it.

usage: seed_store.py <ID> <m> [<check id> ...]     (default check id = the property's own)
Applies the patch to /repo, runs the quick check(s), reverts /repo, writes patch.diff / demo.py / meta.json."""
import json
import os
import shutil
import subprocess
import sys

ID, M = sys.argv[1], sys.argv[2]
checks = sys.argv[3:] or [ID]
import os as _os
BASE = _os.environ.get("MUT_BASE", "/tmp/mut/out")
TAG = _os.environ.get("MUT_TAG", "")
src = "%s/%s/%s" % (BASE, ID, M)
dst = "/verif/seeded/%s-%s%s" % (ID, TAG, M)
os.makedirs(dst, exist_ok=True)
meta = json.load(open(src + "/meta.json"))
conf_path = "/tmp/mut/confirm/%s_%s%s.json" % (ID, TAG, M)
conf = json.load(open(conf_path)) if os.path.exists(conf_path) else {}
patch = src + "/patch.diff"
reb = "/tmp/mut/confirm/%s_%s%s.patch.rebased.diff" % (ID, TAG, M)
use = reb if os.path.exists(reb) and os.path.getsize(reb) > 0 else patch
# the change is applied in a scratch worktree of /repo's HEAD (never in /repo itself); VERIF_REPO points the workers at it
import tempfile
wt = tempfile.mkdtemp(prefix="seedwt_", dir="/tmp"); os.rmdir(wt)
subprocess.run(["git", "-C", "/repo", "worktree", "add", "-q", "--detach", wt, "HEAD"], check=True)
detected = {}
applied = False
try:
    r = subprocess.run(["git", "-C", wt, "apply", use], capture_output=True, text=True)
    applied = r.returncode == 0
    if applied:
        env = dict(os.environ, VERIF_REPO=wt, VERIF_EVIDENCE_DIR=wt + "/.evidence")
        for c in checks:
            p = subprocess.run(["./check", c, "--tier", "quick"], cwd="/verif", capture_output=True, text=True, env=env)
            lines = [l for l in p.stdout.splitlines() if l.startswith("VIOLATION") or l.startswith("  obligation=")]
            obs = sorted({l.split("obligation=")[1].split(" ")[0] + " " + l.split("tag=")[1].split(" detail=")[0][:80]
                          for l in lines if l.startswith("  obligation=")})
            detected[c] = {"exit": p.returncode, "violations": sum(1 for l in lines if l.startswith("VIOLATION")),
                           "obligations": obs[:6],
                           "inconclusive": sum(1 for l in p.stdout.splitlines() if l.startswith("INCONCLUSIVE"))}
finally:
    subprocess.run(["git", "-C", "/repo", "worktree", "remove", "--force", wt])
shutil.copy(use, dst + "/patch.diff")
shutil.copy(src + "/demo.py", dst + "/demo.py")
out = {
    "property": ID,
    "summary": meta.get("summary"),
    "files": meta.get("files"),
    "needs_to_manifest": meta.get("needs_to_manifest"),
    "why_tests_pass": meta.get("why_tests_pass"),
    "origin": "written by an independent sub-agent that saw only the property text and a scratch worktree",
    "confirmed": {
        "how": "tools/seed_confirm.sh in a scratch worktree of /repo HEAD: demo on the clean tree, patch applied, demo "
               "again, then the pinned test suite (TestDBMDict deselected: 10 of its 11 tests fail on the unmodified tree)",
        "demo_clean_exit": conf.get("demo_clean_exit"), "demo_mutated_exit": conf.get("demo_mutated_exit"),
        "patch_applies": conf.get("patch_applies") == 0, "tests_exit": conf.get("tests_exit"),
        "tests_tail": conf.get("tests_tail"),
    },
    "detection": {"patch_applied_to_scratch_worktree_of_repo_head": applied, "checks_run": ["./check %s --tier quick" % c for c in checks],
                  "result": detected,
                  "detected": any(v["exit"] == 1 for v in detected.values())},
}
json.dump(out, open(dst + "/meta.json", "w"), indent=1)
print(ID, M, "applied" if applied else "PATCH DOES NOT APPLY", {k: (v["exit"], v["violations"]) for k, v in detected.items()})
