"""real asyncio loop: two waiters and a stale snapshot, against frontend.server.connector.handler"""
import asyncio, os, pickle, sys, tempfile, shutil
home = tempfile.mkdtemp(); os.environ["HOME"] = home
sys.path.insert(0, os.getcwd())
import frontend.server.connector as CN
import frontend.server.services.services_manager as SMM

class WS:
    def __init__(self):
        self.q = asyncio.Queue(); self.sent = []; self.closed = asyncio.get_event_loop().create_future()
    async def recv(self):
        return await self.q.get()
    def __aiter__(self): return self
    async def __anext__(self):
        g = asyncio.ensure_future(self.q.get())
        done, _ = await asyncio.wait([g, self.closed], return_when=asyncio.FIRST_COMPLETED)
        if g in done: return g.result()
        g.cancel(); raise StopAsyncIteration
    async def send(self, d): self.sent.append(pickle.loads(d))
    async def wait_closed(self): await asyncio.shield(self.closed)
    def close(self):
        if not self.closed.done(): self.closed.set_result(None)
    def frames(self):
        out = []
        for d in self.sent:
            c = d["content"]
            try: c = pickle.loads(c)
            except Exception: pass
            out.append((d["type"], c))
        return out

SID = "real-loop-sid"
def msg(t, c): return pickle.dumps({"type": t, "sid": SID, "content": c})
CFG = {"scheme": "CJJ14.PiBas", "param_lambda": 32, "prf_f_output_length": 32, "prf_f": "HmacPRF", "ske": "AES-CBC"}

async def main():
    real_sleep = asyncio.sleep
    async def fast_sleep(d): await real_sleep(0.05 if d >= 1 else d)
    SMM.asyncio.sleep = fast_sleep
    bad = []
    conns = {}
    async def open_(n):
        ws = WS(); conns[n] = ws
        ws.q.put_nowait(pickle.dumps({"type": "init", "sid": SID}))
        t = asyncio.ensure_future(CN.handler(ws, "/"))
        t.add_done_callback(lambda _t, ws=ws: ws.close())
        await real_sleep(0.02); return ws
    A = await open_("A"); B = await open_("B"); C = await open_("C")
    A.q.put_nowait(msg("config", pickle.dumps(CFG))); await real_sleep(0.05)
    if ("config", {"ok": True}) not in A.frames(): bad.append("A config not acknowledged: %r" % A.frames())
    A.close(); await real_sleep(0.3)
    # exactly one of B, C is being served now; the other must still wait: it gets no reply to a search-free request
    served = [n for n in ("B", "C") if len([f for f in conns[n].frames() if f[0] == "control"]) == 0]
    B.q.put_nowait(msg("bogus-type-ignored", b"x")) if False else None
    B.q.put_nowait(msg("config", pickle.dumps(CFG))); await real_sleep(0.01)
    rb = [f for f in B.frames() if f[0] == "config"]
    C.q.put_nowait(msg("config", pickle.dumps(CFG))); await real_sleep(0.3)
    rc = [f for f in C.frames() if f[0] == "config"]
    rb = [f for f in B.frames() if f[0] == "config"]
    if not rb or not rc: bad.append("a waiting connection was never served: B %r C %r" % (rb, rc))
    for f in rb + rc:
        if f[1].get("ok"): bad.append("configuration acknowledged a second time (stale state 0 used): %r" % (f,))
    B.close(); C.close(); await real_sleep(0.5)
    P = await open_("P"); await real_sleep(0.1)
    st = [f for f in P.frames() if f[0] == "init"]
    if not st or st[0][1].get("state") != 1: bad.append("probe told %r, expected state 1" % (st,))
    P.close(); await real_sleep(0.3)
    return bad
bad = asyncio.run(main())
shutil.rmtree(home, ignore_errors=True)
print("\n".join(bad) if bad else "PASS"); sys.exit(1 if bad else 0)
