#!/bin/bash
# usage: try_mut.sh <dir with patch.diff> <check id> [tier]  - applies the patch to /repo, runs the check, reverts
D=$1; C=$2; T=${3:-quick}
cd /verif
git -C /repo apply $D/patch.diff || { echo "PATCH DOES NOT APPLY"; exit 2; }
./check $C --tier $T 2>/dev/null | grep "^VIOLATION\|^  obl\|^INCONC\|^KNOWN" | sed 's/detail=.*args=/args=/' | cut -c1-260 | head -${4:-4}
git -C /repo checkout -- .
