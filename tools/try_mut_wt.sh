#!/bin/bash
# usage: try_mut_wt.sh <dir with patch.diff> <check id> [tier] [lines]
# tries a change WITHOUT touching /repo: scratch worktree of /repo HEAD under /tmp, VERIF_REPO points the
# workers at it; the worktree is removed afterwards.  (Registered commands never set VERIF_REPO.)
D=$(realpath $1); C=$2; T=${3:-quick}
W=$(mktemp -d /tmp/mutwt.XXXXXX); rmdir $W
git -C /repo worktree add -q --detach $W HEAD || exit 2
trap 'git -C /repo worktree remove --force $W >/dev/null 2>&1' EXIT
git -C $W apply $D/patch.diff || { echo "PATCH DOES NOT APPLY"; exit 2; }
cd /verif
VERIF_REPO=$W VERIF_EVIDENCE_DIR=$W/.evidence ./check $C --tier $T ${ONLY:+--only $ONLY} 2>/dev/null | grep "^VIOLATION\|^  obl\|^INCONC\|^KNOWN" | sed 's/detail=.*args=/args=/' | cut -c1-260 | head -${4:-4}
echo "exit=${PIPESTATUS[0]}"
