#!/bin/bash
# runs every claimed check of one tier on the current tree; prints one line per property
cd "$(dirname "$0")/.."
TIER=${1:-quick}
for c in C01 C02 C03 C04 C05 C06 C07 C08 C09 C10 C11 C12 C13 C14 C15 C16 C17 C18 C19 C20; do
  s=$(date +%s); ./check $c --tier $TIER > /tmp/run_$c.out 2> /tmp/run_$c.err; e=$?; t=$(( $(date +%s) - s ))
  echo "$c exit=$e ${t}s $(grep -c '^KNOWN-FINDING' /tmp/run_$c.out) known $(grep -c '^VIOLATION' /tmp/run_$c.out) viol $(grep -c '^INCONCLUSIVE' /tmp/run_$c.out) inconcl"
done
