"""Harness-side API of BVX.  A BVX harness is  h(P, X) -> verdict  written only in terms of X, so that the
same text runs (a) symbolically through the interpreter, (b) concretely through the interpreter while being
compared call-by-call with native execution (translator self-validation), (c) natively for the replay."""
import ast
import random

import z3

from bvx import interp as B


class Raised(Exception):
    """an exception raised by the code under test (interpreted or native)"""

    def __init__(self, exc):
        Exception.__init__(self, repr(exc))
        self.exc = exc


_OPS = {"+": ast.Add, "-": ast.Sub, "*": ast.Mult, "//": ast.FloorDiv, "%": ast.Mod, "<<": ast.LShift,
        ">>": ast.RShift, "&": ast.BitAnd, "|": ast.BitOr, "^": ast.BitXor}
_CMP = {"==": ast.Eq, "!=": ast.NotEq, "<": ast.Lt, "<=": ast.LtE, ">": ast.Gt, ">=": ast.GtE}


class SymX:
    symbolic = True
    mode = "symbolic"

    def __init__(self, ctx):
        self.ctx = ctx
        self.I = B.INTERP
        self.names = []

    # ---- inputs
    def int(self, name, bits):
        """free non-negative int below 2**bits"""
        self.names.append(name)
        if bits == 0:
            return 0
        return self.ctx.fresh_int(name, bits)

    def bytes(self, name, n):
        """byte string of concrete length n with free bytes"""
        out = []
        for i in range(n):
            out.append(self.ctx.fresh_int("%s_%d" % (name, i), 8))
            self.names.append("%s_%d" % (name, i))
        return B.SymBytes(out)

    def bytes_eq(self, a, b):
        if len(a) != len(b):
            return False
        return self.all(*[self.eq(x, y) for x, y in zip(a, b)])

    # ---- running the code under test
    def call(self, f, *args, **kw):
        try:
            return self.I.call(f, list(args), kw)
        except B.PyRaise as pr:
            raise Raised(pr.exc)

    def method(self, obj, name, *args, **kw):
        m = B.find_in_mro(type(obj), name)
        if m is None:
            raise Raised(AttributeError(name))
        return self.call(B.BoundMethod(obj, m), *args, **kw)

    def op(self, sym, a, b):
        try:
            return self.I.binop(_OPS[sym], a, b)
        except B.PyRaise as pr:
            raise Raised(pr.exc)

    def cmp(self, sym, a, b):
        try:
            return self.I.compare(_CMP[sym], a, b)
        except B.PyRaise as pr:
            raise Raised(pr.exc)

    def invert(self, a):
        return self.method(a, "__invert__")

    def attr(self, obj, name):
        return self.I.getattr(obj, name)

    def truth(self, v):
        return self.ctx.truth(v)

    # ---- building the verdict (reference side)
    def t(self, v):
        """z3 term of an int-like value"""
        if isinstance(v, B.SymBool):
            return z3.If(v.t, self.ctx.bv(1), self.ctx.bv(0))
        if isinstance(v, B.SymBitLen):
            return B.i_bit_length_full(self.I, v.x).t
        return self.ctx.bv(v)

    def eq(self, a, b):
        return B.SymBool(self.t(a) == self.t(b))

    def ult(self, a, b):
        return B.SymBool(z3.ULT(self.t(a), self.t(b)))

    def all(self, *conds):
        ts = []
        for c in conds:
            if isinstance(c, B.SymBool):
                ts.append(c.t)
            elif not c:
                return False
        if not ts:
            return True
        return B.SymBool(z3.And(*ts))

    def implies(self, a, b):
        ta = a.t if isinstance(a, B.SymBool) else z3.BoolVal(bool(a))
        tb = b.t if isinstance(b, B.SymBool) else z3.BoolVal(bool(b))
        return B.SymBool(z3.Implies(ta, tb))

    def not_(self, a):
        return B.SymBool(z3.Not(a.t)) if isinstance(a, B.SymBool) else (not a)

    def ref(self, fn, *vals):
        """reference term: fn gets z3 terms (width W) and returns a z3 term"""
        return B.SymInt(fn(*[self.t(v) for v in vals]))

    def const(self, v):
        return self.ctx.bv(v)

    def bit(self, v, k):
        """bit k (0 = LSB) of v as a SymBool/bool"""
        if isinstance(v, B.SymInt):
            return B.SymBool(z3.Extract(k, k, v.t) == 1)
        return bool((v >> k) & 1)

    def same_bool(self, a, b):
        ta = a.t if isinstance(a, B.SymBool) else z3.BoolVal(bool(a))
        tb = b.t if isinstance(b, B.SymBool) else z3.BoolVal(bool(b))
        return B.SymBool(ta == tb)

    @property
    def W(self):
        return self.ctx.W


class NativeX:
    """plain execution with recorded / random concrete inputs"""
    symbolic = False
    mode = "native"

    def __init__(self, args=None, rng=None, W=4096):
        self.args = args
        self.rng = rng
        self.used = {}
        self.W = W

    def int(self, name, bits):
        if self.args is not None and name in self.args:
            v = int(self.args[name])
        elif self.rng is not None:
            r = self.rng.random()
            if bits == 0:
                v = 0
            elif r < 0.15:
                v = (1 << bits) - 1
            elif r < 0.25:
                v = 0
            elif r < 0.35:
                v = 1 << (bits - 1)
            else:
                v = self.rng.getrandbits(bits)
        else:
            v = 0
        self.used[name] = v
        return v

    def bytes(self, name, n):
        return bytes(self.int("%s_%d" % (name, i), 8) for i in range(n))

    def bytes_eq(self, a, b):
        return bytes(a) == bytes(b)

    def call(self, f, *args, **kw):
        import types
        try:
            r = f(*args, **kw)
            if isinstance(r, types.GeneratorType):
                r = list(r)
            return r
        except Exception as e:
            raise Raised(e)

    def method(self, obj, name, *args, **kw):
        import types
        try:
            r = getattr(obj, name)(*args, **kw)
            if isinstance(r, types.GeneratorType):
                r = list(r)          # the interpreter runs generators eagerly
            return r
        except Exception as e:
            raise Raised(e)

    def op(self, sym, a, b):
        import operator
        f = {"+": operator.add, "-": operator.sub, "*": operator.mul, "//": operator.floordiv, "%": operator.mod,
             "<<": operator.lshift, ">>": operator.rshift, "&": operator.and_, "|": operator.or_,
             "^": operator.xor}[sym]
        try:
            return f(a, b)
        except Exception as e:
            raise Raised(e)

    def cmp(self, sym, a, b):
        import operator
        f = {"==": operator.eq, "!=": operator.ne, "<": operator.lt, "<=": operator.le, ">": operator.gt,
             ">=": operator.ge}[sym]
        try:
            return f(a, b)
        except Exception as e:
            raise Raised(e)

    def invert(self, a):
        try:
            return ~a
        except Exception as e:
            raise Raised(e)

    def attr(self, obj, name):
        return getattr(obj, name)

    def truth(self, v):
        return bool(v)

    def t(self, v):
        return int(v)

    def eq(self, a, b):
        return int(a) == int(b)

    def ult(self, a, b):
        return 0 <= int(a) < int(b)

    def all(self, *conds):
        return all(bool(c) for c in conds)

    def implies(self, a, b):
        return (not a) or bool(b)

    def not_(self, a):
        return not a

    def ref(self, fn, *vals):
        W = self.W
        r = z3.simplify(fn(*[z3.BitVecVal(int(v), W) for v in vals]))
        return r.as_long()

    def const(self, v):
        return int(v)

    def bit(self, v, k):
        return bool((int(v) >> k) & 1)

    def same_bool(self, a, b):
        return bool(a) == bool(b)


def _canon(v):
    """comparable form of a result (Bitset -> (value, length), exceptions -> type name)"""
    if isinstance(v, Raised):
        return ("raise", type(v.exc).__name__)
    if hasattr(v, "value") and hasattr(v, "length") and type(v).__name__ == "Bitset":
        return ("Bitset", v.value, v.length)
    if isinstance(v, (list, tuple)) and not isinstance(v, bytes):
        if type(v).__name__ == "SymBytes":
            return bytes(int(x) if not hasattr(x, "t") else z3.simplify(x.t).as_long() for x in v)
        return tuple(_canon(x) for x in v)
    if isinstance(v, (int, bool, bytes, str, type(None))):
        return v
    return ("obj", type(v).__name__)


class CheckedX(NativeX):
    """translator self-validation: every call goes through the interpreter on CONCRETE values and natively,
    and the two results must agree"""
    mode = "checked"

    def __init__(self, rng, W):
        NativeX.__init__(self, None, rng, W)
        self.ctx = B.Ctx(W)
        self.I = B.INTERP
        self.I._symdicts = {}
        self.mismatch = None
        self.calls = 0

    def _both(self, native_thunk, interp_thunk, what):
        B.INTERP.ctx = self.ctx
        try:
            n = native_thunk()
        except Raised as r:
            n = r
        try:
            i = interp_thunk()
        except B.PyRaise as pr:
            i = Raised(pr.exc)
        self.calls += 1
        if _canon(n) != _canon(i) and self.mismatch is None:
            self.mismatch = "%s: native %r vs interpreted %r" % (what, _canon(n), _canon(i))
        if isinstance(n, Raised):
            raise n
        return n

    def call(self, f, *args, **kw):
        return self._both(lambda: NativeX.call(self, f, *args, **kw),
                          lambda: self.I.call(f, list(args), kw), getattr(f, "__qualname__", repr(f)))

    def method(self, obj, name, *args, **kw):
        m = B.find_in_mro(type(obj), name)
        return self._both(lambda: NativeX.method(self, obj, name, *args, **kw),
                          lambda: self.I.call(B.BoundMethod(obj, m), list(args), kw),
                          "%s.%s" % (type(obj).__name__, name))

    def op(self, sym, a, b):
        return self._both(lambda: NativeX.op(self, sym, a, b), lambda: self.I.binop(_OPS[sym], a, b), "op " + sym)

    def invert(self, a):
        return self.method(a, "__invert__")
