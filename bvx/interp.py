"""BVX: AST-level symbolic interpreter for the int/bit/byte kernels of /repo (DESIGN 2.2).

Repository functions are interpreted from their source (inspect.getsource of the imported live module, so
an edit in /repo changes the encoding); ints are z3 bit-vectors of a per-obligation width W, structure
(lengths, loop counts) is concrete per path, symbolic branches fork by re-execution with a decision prefix.
hmac inside BitwiseFFX.round is an uninterpreted function; math.log(v, 2) of a symbolic v is a sound
envelope (floor within [bit_length-2, bit_length], -1 for v <= 0 which is what Bitset.__init__'s
try/except turns into length 0).
"""
import ast, builtins, functools, inspect, math, operator, struct, sys, textwrap, time, types
import hashlib as _hashlib
import z3

import os as _os
REPO = _os.environ.get("VERIF_REPO", "/repo")   # the default is the tree the checks are about; the override exists only to try changes in a scratch worktree
DEBUG_FORKS = False
FAST = True   # overflow side-queries off: the harness picks W with a stated margin (see bvx_worker)
DUMP = None
DEBUG_LOC = []


class Unsupported(Exception):
    pass


class PyRaise(Exception):
    """an interpreted Python exception in flight"""
    def __init__(self, exc):
        self.exc = exc


class _Return(Exception):
    def __init__(self, v): self.v = v
class _Break(Exception): pass
class _Continue(Exception): pass
class Infeasible(Exception): pass


class SymBool:
    def __init__(self, t): self.t = t
    def __repr__(self): return "SymBool(%s)" % self.t


class SymInt:
    __slots__ = ("t",)
    def __init__(self, t): self.t = t
    def __repr__(self): return "SymInt(%s)" % self.t


class BoundMethod:
    def __init__(self, self_, fn): self.self_, self.fn = self_, fn


class Ctx:
    """one exploration: solver, width, decision prefix"""
    def __init__(self, width=256, timeout_ms=60000):
        self.W = width
        self.s = z3.Solver(); self.s.set("timeout", timeout_ms)
        self.queries = 0; self.solver_time = 0.0
        self.prefix = []; self.pos = 0; self.pending = []
        self.fresh_ctr = 0

    # --- solver helpers
    def check(self, *extra):
        self.queries += 1
        t = time.time()
        r = self.s.check(*extra)
        self.solver_time += time.time() - t
        if r == z3.unknown:
            raise Unsupported("solver unknown")
        return r == z3.sat

    def bv(self, v):
        if isinstance(v, SymInt): return v.t
        if isinstance(v, bool): return z3.BitVecVal(int(v), self.W)
        if isinstance(v, int):
            if v.bit_length() >= self.W - 1: raise Unsupported("constant too wide for W")
            return z3.BitVecVal(v, self.W)
        raise Unsupported("bv of %r" % type(v))

    def fresh_int(self, name, bits):
        """free non-negative int < 2**bits"""
        x = z3.BitVec(name, self.W)
        self.s.add(z3.ULT(x, z3.BitVecVal(1 << bits, self.W)))
        return SymInt(x)

    def decide(self, cond):
        """fork on a z3 Bool; returns concrete bool for this path"""
        cond = z3.simplify(cond)
        if z3.is_true(cond): return True
        if z3.is_false(cond): return False
        if self.pos < len(self.prefix):
            d = self.prefix[self.pos]; self.pos += 1
        else:
            t_ok = self.check(cond)
            f_ok = self.check(z3.Not(cond))
            if t_ok and f_ok:
                self.pending.append(self.prefix[:self.pos] + [False])
                d = True
                if DEBUG_FORKS:
                    import traceback
                    print("FORK at", DEBUG_LOC[-1] if DEBUG_LOC else "?", str(cond)[:100].replace("\n", " "), flush=True)
            elif t_ok: d = True
            elif f_ok: d = False
            else: raise Infeasible()
            self.prefix.append(d); self.pos += 1
        self.s.add(cond if d else z3.Not(cond))
        return d

    def realize(self, x, cap=4096):
        """solver-driven realisation of a symbolic int: one path per feasible value"""
        t = x.t
        sv = z3.simplify(t)
        if z3.is_bv_value(sv): return sv.as_signed_long()
        if self.pos < len(self.prefix) and self.prefix[self.pos][1] is not None:
            _, v, excl = self.prefix[self.pos]; self.pos += 1
        else:
            if self.pos < len(self.prefix):
                excl = self.prefix[self.pos][2]
            else:
                excl = []
            if len(excl) >= cap: raise Unsupported("realisation cap")
            for e in excl: self.s.add(t != self.bv(e))
            if not self.check(): raise Infeasible()
            v = self.s.model().eval(t, model_completion=True).as_signed_long()
            self.pending.append(self.prefix[:self.pos] + [("r", None, excl + [v])])
            if self.pos < len(self.prefix): self.prefix[self.pos] = ("r", v, excl)
            else: self.prefix.append(("r", v, excl))
            self.pos += 1
        for e in excl: self.s.add(t != self.bv(e))
        self.s.add(t == self.bv(v))
        return v

    def truth(self, v):
        if isinstance(v, SymBool): return self.decide(v.t)
        if isinstance(v, SymInt): return self.decide(v.t != 0)
        if is_repo_instance(v):
            for nm in ("__bool__", "__len__"):
                m = find_in_mro(type(v), nm)
                if m is not None:
                    return self.truth(INTERP.call(BoundMethod(v, m), [], {}))
            return True
        return bool(v)


def is_repo_function(f):
    return isinstance(f, types.FunctionType) and (getattr(f, "__code__", None) is not None) and f.__code__.co_filename.startswith(REPO)


def is_repo_class(c):
    try:
        return isinstance(c, type) and inspect.getsourcefile(c).startswith(REPO)
    except Exception:
        return False


def is_repo_instance(o):
    return is_repo_class(type(o))


def find_in_mro(cls, name):
    for k in cls.__mro__:
        if name in k.__dict__:
            return k.__dict__[name]
    return None


_AST_CACHE = {}
def fn_ast(fn):
    key = fn.__code__
    if key not in _AST_CACHE:
        src = textwrap.dedent(inspect.getsource(fn))
        node = ast.parse(src).body[0]
        _AST_CACHE[key] = node
    return _AST_CACHE[key]


class Interp:
    def __init__(self):
        self.ctx = None
        self.intrinsics = {}
        self.uf_cache = {}
        self.calls = {}

    # ---------------- calls
    def call(self, f, args, kwargs):
        ctx = self.ctx
        if isinstance(f, BoundMethod):
            return self.call(f.fn, [f.self_] + list(args), kwargs)
        if isinstance(f, types.MethodType):
            return self.call(f.__func__, [f.__self__] + list(args), kwargs)
        if isinstance(f, functools.partial):
            kw = dict(f.keywords)
            kw.update(kwargs)
            return self.call(f.func, list(f.args) + list(args), kw)
        if getattr(f, "__module__", None) == __name__ and getattr(f, "__name__", "").startswith("i_"):
            return f(self, *args, **kwargs)
        try:
            hit = f in self.intrinsics
        except TypeError:
            hit = False
        if hit:
            return self.intrinsics[f](self, *args, **kwargs)
        if is_repo_function(f):
            return self.call_repo(f, args, kwargs)
        if is_repo_instance(f) and not isinstance(f, type):
            m = find_in_mro(type(f), "__call__")
            if m is not None and is_repo_function(m):
                return self.call_repo(m, [f] + list(args), kwargs)
        if is_repo_class(f):
            obj = object.__new__(f)
            init = find_in_mro(f, "__init__")
            if is_repo_function(init):
                self.call_repo(init, [obj] + list(args), kwargs)
            return obj
        d_self = getattr(f, "__self__", None)
        if isinstance(d_self, dict) and f.__name__ in ("get", "__getitem__", "__contains__", "__setitem__", "setdefault", "clear") \
                and self.dict_is_symbolic(d_self, *args[:1]):
            return self.dict_method(d_self, f.__name__, list(args), kwargs)
        if isinstance(getattr(f, "__self__", None), list) and f.__name__ in ("append", "extend", "insert", "reverse", "copy", "clear"):
            return f(*args, **kwargs)
        if f in (enumerate, zip, reversed):      # structural: never look at the elements
            its = [self.iterate(a) for a in args]
            return list(f(*its, **kwargs))
        if f is tuple:
            return tuple(self.iterate(args[0])) if args else ()
        if any(self.is_sym(a) for a in list(args) + list(kwargs.values())):
            raise Unsupported("native call %r with symbolic argument" % (f,))
        try:
            return f(*args, **kwargs)
        except Exception as e:
            raise PyRaise(e)

    # ---------------- dictionaries with symbolic keys (memo tables keyed by an input)
    # entries whose key has a symbolic component live in a side list per dict object; a lookup compares the key with
    # the candidates through the solver (one decision each), so "same key" is decided, not assumed
    def _symkeys(self, d, create=False):
        tab = self.__dict__.setdefault("_symdicts", {})
        ent = tab.get(id(d))
        if ent is None or ent[0] is not d:
            if not create: return None
            ent = (d, []); tab[id(d)] = ent
        return ent[1]

    def _key_same(self, a, b):
        """decides (forking if needed) whether two dictionary keys are equal"""
        if isinstance(a, tuple) or isinstance(b, tuple):
            if not (isinstance(a, tuple) and isinstance(b, tuple)) or len(a) != len(b): return False
            return all(self._key_same(x, y) for x, y in zip(a, b))
        if is_repo_instance(a) or is_repo_instance(b):
            raise Unsupported("repository object inside a symbolic dictionary key")
        return self.ctx.truth(self.compare(ast.Eq, a, b))

    def dict_find(self, d, key):
        """-> (found, value, where) ; where = ('c', key) concrete slot or ('s', index) side-list slot"""
        pairs = self._symkeys(d)
        if not self.is_sym(key):
            try:
                if key in d: return True, d[key], ("c", key)
            except TypeError as ex: raise PyRaise(ex)
            for i, (k, v) in enumerate(pairs or ()):
                if self._key_same(key, k): return True, v, ("s", i)
            return False, None, None
        for k in list(d.keys()):
            if self._key_same(key, k): return True, d[k], ("c", k)
        for i, (k, v) in enumerate(pairs or ()):
            if self._key_same(key, k): return True, v, ("s", i)
        return False, None, None

    def dict_store(self, d, key, v):
        found, _, where = self.dict_find(d, key)
        if found:
            if where[0] == "c": d[where[1]] = v
            else: self._symkeys(d)[where[1]][1] = v
        elif self.is_sym(key):
            self._symkeys(d, create=True).append([key, v])
        else:
            d[key] = v

    def dict_method(self, d, name, args, kwargs):
        if name == "get":
            found, v, _ = self.dict_find(d, args[0])
            return v if found else (args[1] if len(args) > 1 else kwargs.get("default"))
        if name == "__getitem__":
            found, v, _ = self.dict_find(d, args[0])
            if not found: raise PyRaise(KeyError("symbolic key"))
            return v
        if name == "__contains__":
            return self.dict_find(d, args[0])[0]
        if name == "__setitem__":
            self.dict_store(d, args[0], args[1]); return None
        if name == "setdefault":
            found, v, _ = self.dict_find(d, args[0])
            if found: return v
            self.dict_store(d, args[0], args[1] if len(args) > 1 else None)
            return args[1] if len(args) > 1 else None
        if name == "clear":
            d.clear()
            pairs = self._symkeys(d)
            if pairs is not None: del pairs[:]
            return None
        raise Unsupported("dict.%s with symbolic keys" % name)

    def dict_is_symbolic(self, d, *keys):
        return isinstance(d, dict) and (any(self.is_sym(k) for k in keys) or bool(self._symkeys(d)))

    def is_sym(self, v):
        if isinstance(v, (SymInt, SymBool)): return True
        if isinstance(v, (list, tuple)): return any(self.is_sym(x) for x in v)
        if is_repo_instance(v): return any(self.is_sym(x) for x in vars(v).values()) if hasattr(v, "__dict__") else False
        return False

    def call_repo(self, f, args, kwargs):
        self.calls[f.__qualname__] = self.calls.get(f.__qualname__, 0) + 1
        node = fn_ast(f)
        env = {}
        a = node.args
        params = [p.arg for p in a.posonlyargs + a.args]
        defaults = list(f.__defaults__ or ())
        ndef = len(defaults)
        for i, p in enumerate(params):
            if i < len(args): env[p] = args[i]
            elif p in kwargs: env[p] = kwargs[p]
            elif i >= len(params) - ndef: env[p] = defaults[i - (len(params) - ndef)]
            else: raise PyRaise(TypeError("missing argument %s" % p))
        if a.vararg: env[a.vararg.arg] = tuple(args[len(params):])
        elif len(args) > len(params): raise PyRaise(TypeError("too many args"))
        for p in a.kwonlyargs:
            if p.arg in kwargs: env[p.arg] = kwargs[p.arg]
            elif f.__kwdefaults__ and p.arg in f.__kwdefaults__: env[p.arg] = f.__kwdefaults__[p.arg]
            else: raise PyRaise(TypeError("missing kw %s" % p.arg))
        frame = Frame(f, env)
        gen = inspect.isgeneratorfunction(f)
        try:
            self.exec_block(node.body, frame)
        except _Return as r:
            return frame.yields if gen else r.v
        return frame.yields if gen else None

    def e_Yield(self, e, fr):
        fr.yields.append(self.ev(e.value, fr) if e.value else None)
        return None

    # ---------------- statements
    def exec_block(self, stmts, fr):
        for s in stmts:
            self.exec_stmt(s, fr)

    def exec_stmt(self, s, fr):
        DEBUG_LOC.append("%s:%d" % (fr.f.__qualname__, s.lineno))
        try:
            return self._exec_stmt(s, fr)
        finally:
            DEBUG_LOC.pop()

    def _exec_stmt(self, s, fr):
        m = getattr(self, "s_" + type(s).__name__, None)
        if m is None: raise Unsupported("stmt %s at %s:%d" % (type(s).__name__, fr.f.__code__.co_filename, s.lineno))
        return m(s, fr)

    def s_Expr(self, s, fr): self.ev(s.value, fr)
    def s_Pass(self, s, fr): pass
    def s_Return(self, s, fr): raise _Return(self.ev(s.value, fr) if s.value else None)
    def s_Break(self, s, fr): raise _Break()
    def s_Continue(self, s, fr): raise _Continue()

    def s_Assign(self, s, fr):
        v = self.ev(s.value, fr)
        for t in s.targets: self.assign(t, v, fr)

    def s_AugAssign(self, s, fr):
        cur = self.ev(ast.copy_location(self._load(s.target), s.target), fr)
        v = self.binop(type(s.op), cur, self.ev(s.value, fr))
        self.assign(s.target, v, fr)

    def _load(self, t):
        t2 = ast.parse(ast.unparse(t), mode="eval").body
        return t2

    def assign(self, t, v, fr):
        if isinstance(t, ast.Name): fr.env[t.id] = v
        elif isinstance(t, ast.Attribute):
            obj = self.ev(t.value, fr)
            name = t.attr
            if name.startswith("__") and not name.endswith("__") and fr.cls_name:
                name = "_%s%s" % (fr.cls_name.lstrip("_"), name)
            object.__setattr__(obj, name, v)
        elif isinstance(t, (ast.Tuple, ast.List)):
            vals = list(self.iterate(v))
            if len(vals) != len(t.elts): raise PyRaise(ValueError("unpack"))
            for tt, vv in zip(t.elts, vals): self.assign(tt, vv, fr)
        elif isinstance(t, ast.Subscript):
            obj = self.ev(t.value, fr); idx = self.ev(t.slice, fr)
            if is_repo_instance(obj):
                self.call(BoundMethod(obj, find_in_mro(type(obj), "__setitem__")), [idx, v], {})
            else:
                if self.dict_is_symbolic(obj, idx):
                    self.dict_store(obj, idx, v)
                    return
                if self.is_sym(idx): raise Unsupported("symbolic subscript store")
                try: obj[idx] = v
                except Exception as e: raise PyRaise(e)
        else: raise Unsupported("assign target %s" % type(t).__name__)

    def s_If(self, s, fr):
        if self.ctx.truth(self.ev(s.test, fr)): self.exec_block(s.body, fr)
        else: self.exec_block(s.orelse, fr)

    def s_While(self, s, fr):
        n = 0
        while self.ctx.truth(self.ev(s.test, fr)):
            n += 1
            if n > 4096: raise Unsupported("unwinding bound")
            try: self.exec_block(s.body, fr)
            except _Break: return
            except _Continue: continue
        self.exec_block(s.orelse, fr)

    def s_For(self, s, fr):
        for v in self.iterate(self.ev(s.iter, fr)):
            self.assign(s.target, v, fr)
            try: self.exec_block(s.body, fr)
            except _Break: return
            except _Continue: continue
        self.exec_block(s.orelse, fr)

    def s_Raise(self, s, fr):
        if s.exc is None: raise PyRaise(fr.cur_exc)
        e = self.ev(s.exc, fr)
        if isinstance(e, type): e = e()
        raise PyRaise(e)

    def s_Try(self, s, fr):
        try:
            try:
                self.exec_block(s.body, fr)
            except PyRaise as pr:
                for h in s.handlers:
                    if h.type is None: ok = True
                    else:
                        ty = self.ev(h.type, fr)
                        ok = isinstance(pr.exc, ty)
                    if ok:
                        if h.name: fr.env[h.name] = pr.exc
                        old = fr.cur_exc; fr.cur_exc = pr.exc
                        try: self.exec_block(h.body, fr)
                        finally: fr.cur_exc = old
                        break
                else:
                    raise
            else:
                self.exec_block(s.orelse, fr)
        finally:
            if s.finalbody: self.exec_block(s.finalbody, fr)

    def s_Assert(self, s, fr):
        if not self.ctx.truth(self.ev(s.test, fr)): raise PyRaise(AssertionError())

    # ---------------- expressions
    def ev(self, e, fr):
        m = getattr(self, "e_" + type(e).__name__, None)
        if m is None: raise Unsupported("expr %s at %s:%d" % (type(e).__name__, fr.f.__code__.co_filename, getattr(e, "lineno", 0)))
        return m(e, fr)

    def e_Constant(self, e, fr): return e.value
    def e_Name(self, e, fr):
        if e.id in fr.env: return fr.env[e.id]
        g = fr.f.__globals__
        if e.id in g: return g[e.id]
        if hasattr(builtins, e.id): return getattr(builtins, e.id)
        raise PyRaise(NameError(e.id))
    def e_Tuple(self, e, fr): return tuple(self.ev_elts(e.elts, fr))
    def e_List(self, e, fr): return list(self.ev_elts(e.elts, fr))
    def ev_elts(self, elts, fr):
        out = []
        for x in elts:
            if isinstance(x, ast.Starred): out.extend(self.iterate(self.ev(x.value, fr)))
            else: out.append(self.ev(x, fr))
        return out
    def e_JoinedStr(self, e, fr):
        out = ""
        for v in e.values:
            if isinstance(v, ast.Constant):
                out += str(v.value)
            else:
                x = self.ev(v.value, fr)
                out += "<sym>" if self.is_sym(x) else format(x)
        return out
    _PURE = (ast.Name, ast.Constant, ast.Attribute, ast.BinOp, ast.UnaryOp, ast.Call, ast.Load,
             ast.operator, ast.unaryop, ast.expr_context)

    def _pure_int_expr(self, node):
        """side-effect free int expression: names, constants, arithmetic, x.bit_length()"""
        for n in ast.walk(node):
            if not isinstance(n, self._PURE):
                return False
            if isinstance(n, ast.Call):
                if not (isinstance(n.func, ast.Attribute) and n.func.attr == "bit_length" and not n.args):
                    return False
        return True

    def e_IfExp(self, e, fr):
        c = self.ev(e.test, fr)
        if isinstance(c, SymBool) and self._pure_int_expr(e.body) and self._pure_int_expr(e.orelse):
            # if-conversion: both arms are pure int expressions -> one term instead of a fork
            a, b = self.ev(e.body, fr), self.ev(e.orelse, fr)
            if all(isinstance(v, (int, SymInt)) and not isinstance(v, bool) for v in (a, b)):
                return SymInt(z3.If(c.t, self.ctx.bv(a), self.ctx.bv(b)))
        return self.ev(e.body, fr) if self.ctx.truth(c) else self.ev(e.orelse, fr)

    def e_Attribute(self, e, fr):
        obj = self.ev(e.value, fr)
        return self.getattr(obj, e.attr, fr)

    def getattr(self, obj, name, fr=None):
        if isinstance(obj, SymInt):
            if name in ("bit_length", "to_bytes"): return BoundMethod(obj, self.intrinsics["int." + name])
            raise PyRaise(AttributeError(name))
        if is_repo_instance(obj):
            if name.startswith("__") and not name.endswith("__") and fr is not None and fr.cls_name:
                name = "_%s%s" % (fr.cls_name.lstrip("_"), name)
            d = getattr(obj, "__dict__", {})
            if name in d: return d[name]
            a = find_in_mro(type(obj), name)
            if a is None: raise PyRaise(AttributeError(name))
            if isinstance(a, types.FunctionType): return BoundMethod(obj, a)
            if isinstance(a, property): return self.call(a.fget, [obj], {})
            if isinstance(a, staticmethod): return a.__func__
            if isinstance(a, classmethod): return BoundMethod(type(obj), a.__func__)
            return a
        if is_repo_class(obj):
            a = find_in_mro(obj, name)
            if isinstance(a, staticmethod): return a.__func__
            if isinstance(a, classmethod): return BoundMethod(obj, a.__func__)
            if a is not None: return a
        try: return getattr(obj, name)
        except AttributeError as ex: raise PyRaise(ex)

    def e_Call(self, e, fr):
        f = self.ev(e.func, fr)
        args = self.ev_elts(e.args, fr)
        kwargs = {k.arg: self.ev(k.value, fr) for k in e.keywords}
        return self.call(f, args, kwargs)

    def e_BoolOp(self, e, fr):
        is_and = isinstance(e.op, ast.And)
        v = None
        for k, x in enumerate(e.values):
            v = self.ev(x, fr)
            if k == len(e.values) - 1: return v
            t = self.ctx.truth(v)
            if is_and and not t: return v
            if (not is_and) and t: return v
        return v

    def e_UnaryOp(self, e, fr):
        v = self.ev(e.operand, fr)
        if isinstance(e.op, ast.Not): return not self.ctx.truth(v)
        if isinstance(v, SymInt):
            if isinstance(e.op, ast.Invert): return SymInt(~v.t)
            if isinstance(e.op, ast.USub): return SymInt(-v.t)
        if is_repo_instance(v):
            nm = {ast.Invert: "__invert__", ast.USub: "__neg__"}[type(e.op)]
            return self.call(BoundMethod(v, find_in_mro(type(v), nm)), [], {})
        return {ast.Invert: operator.invert, ast.USub: operator.neg, ast.UAdd: operator.pos}[type(e.op)](v)

    BIN = {ast.Add: ("__add__", operator.add), ast.Sub: ("__sub__", operator.sub), ast.Mult: ("__mul__", operator.mul),
           ast.FloorDiv: ("__floordiv__", operator.floordiv), ast.Mod: ("__mod__", operator.mod),
           ast.LShift: ("__lshift__", operator.lshift), ast.RShift: ("__rshift__", operator.rshift),
           ast.BitAnd: ("__and__", operator.and_), ast.BitOr: ("__or__", operator.or_), ast.BitXor: ("__xor__", operator.xor),
           ast.Pow: ("__pow__", operator.pow), ast.Div: ("__truediv__", operator.truediv)}

    def e_BinOp(self, e, fr):
        return self.binop(type(e.op), self.ev(e.left, fr), self.ev(e.right, fr))

    def binop(self, op, l, r):
        ctx = self.ctx
        if isinstance(l, SymBytes) or isinstance(r, SymBytes):
            if op is ast.Add and isinstance(l, (SymBytes, bytes, bytearray)) and isinstance(r, (SymBytes, bytes, bytearray)):
                return _bytes_concat(l, r)
            raise Unsupported("binop %s on symbolic bytes" % op.__name__)
        if is_repo_instance(l):
            m = find_in_mro(type(l), self.BIN[op][0])
            if m is None: raise PyRaise(TypeError("unsupported operand"))
            return self.call(BoundMethod(l, m), [r], {})
        if isinstance(l, SymBool): l = SymInt(z3.If(l.t, ctx.bv(1), ctx.bv(0)))
        if isinstance(r, SymBool): r = SymInt(z3.If(r.t, ctx.bv(1), ctx.bv(0)))
        if isinstance(l, SymInt) or isinstance(r, SymInt):
            if not all(isinstance(x, (int, SymInt)) for x in (l, r)):
                raise Unsupported("binop %s on %r, %r" % (op.__name__, type(l), type(r)))
            a, b = ctx.bv(l), ctx.bv(r)
            W = ctx.W
            if op is ast.Add: t = a + b
            elif op is ast.Sub: t = a - b
            elif op is ast.Mult: t = a * b
            elif op is ast.BitAnd: t = a & b
            elif op is ast.BitOr: t = a | b
            elif op is ast.BitXor: t = a ^ b
            elif op is ast.LShift:
                # obligation: no bits lost (python ints do not wrap)
                t = a << b
                if not FAST and ctx.check(z3.Or(z3.UGE(b, W), z3.LShR(t, b) != a, t < 0)):
                    raise Unsupported("possible overflow of W=%d in <<" % W)
            elif op is ast.RShift: t = a >> b      # arithmetic, like python
            elif op is ast.FloorDiv:
                if ctx.check(z3.Or(a < 0, b <= 0)): raise Unsupported("floordiv sign")
                t = z3.UDiv(a, b)
            elif op is ast.Mod:
                if ctx.check(z3.Or(a < 0, b <= 0)): raise Unsupported("mod sign")
                t = z3.URem(a, b)
            else: raise Unsupported("binop %s" % op.__name__)
            if op in (ast.Add, ast.Sub, ast.Mult):
                # overflow obligation via widened arithmetic
                wa, wb = z3.SignExt(W, a), z3.SignExt(W, b)
                wt = {ast.Add: wa + wb, ast.Sub: wa - wb, ast.Mult: wa * wb}[op]
                if not FAST and ctx.check(wt != z3.SignExt(W, t)):
                    raise Unsupported("possible overflow of W=%d in %s" % (W, op.__name__))
            return SymInt(z3.simplify(t))
        try: return self.BIN[op][1](l, r)
        except Exception as ex: raise PyRaise(ex)

    def e_Compare(self, e, fr):
        l = self.ev(e.left, fr)
        res = True
        for op, rn in zip(e.ops, e.comparators):
            r = self.ev(rn, fr)
            c = self.compare(type(op), l, r)
            if len(e.ops) == 1: return c
            if not self.ctx.truth(c): return False
            l = r
        return res

    def compare(self, op, l, r):
        ctx = self.ctx
        if op in (ast.Is, ast.IsNot):
            return (l is r) if op is ast.Is else (l is not r)
        if op in (ast.In, ast.NotIn) and self.dict_is_symbolic(r, l):
            hit = self.dict_find(r, l)[0]
            return hit if op is ast.In else (not hit)
        if is_repo_instance(l) and op in (ast.Eq, ast.NotEq):
            m = find_in_mro(type(l), "__eq__")
            v = self.call(BoundMethod(l, m), [r], {})
            return v if op is ast.Eq else (not ctx.truth(v))
        if (isinstance(l, SymBytes) or isinstance(r, SymBytes)) and op in (ast.Eq, ast.NotEq):
            if not isinstance(l, (SymBytes, bytes, bytearray)) or not isinstance(r, (SymBytes, bytes, bytearray)):
                return op is ast.NotEq
            if len(l) != len(r):
                return op is ast.NotEq
            ts = [ctx.bv(a) == ctx.bv(b) for a, b in zip(l, r)]
            t = z3.And(*ts) if ts else z3.BoolVal(True)
            return SymBool(t if op is ast.Eq else z3.Not(t))
        if isinstance(l, SymBitLen) and isinstance(r, int) and not isinstance(r, bool) and 0 <= r < ctx.W - 2:
            ax = z3.If(l.x.t < 0, -l.x.t, l.x.t)
            if op is ast.Gt:
                return SymBool(z3.UGE(ax, ctx.bv(1 << r)))
            if op is ast.LtE:
                return SymBool(z3.ULT(ax, ctx.bv(1 << r)))
            if op is ast.GtE:
                return SymBool(z3.UGE(ax, ctx.bv(1 << (r - 1)))) if r > 0 else True
            if op is ast.Lt:
                return SymBool(z3.ULT(ax, ctx.bv(1 << (r - 1)))) if r > 0 else False
        if isinstance(l, (SymInt, SymBool)) or isinstance(r, (SymInt, SymBool)):
            if isinstance(l, SymBool): l = SymInt(z3.If(l.t, ctx.bv(1), ctx.bv(0)))
            if isinstance(r, SymBool): r = SymInt(z3.If(r.t, ctx.bv(1), ctx.bv(0)))
            if not all(isinstance(x, (int, SymInt)) for x in (l, r)):
                if op is ast.Eq: return False
                if op is ast.NotEq: return True
                raise PyRaise(TypeError("compare"))
            a, b = ctx.bv(l), ctx.bv(r)
            t = {ast.Eq: a == b, ast.NotEq: a != b, ast.Lt: a < b, ast.LtE: a <= b, ast.Gt: a > b, ast.GtE: a >= b}[op]
            return SymBool(t)
        try:
            return {ast.Eq: operator.eq, ast.NotEq: operator.ne, ast.Lt: operator.lt, ast.LtE: operator.le,
                    ast.Gt: operator.gt, ast.GtE: operator.ge, ast.In: lambda a, b: a in b,
                    ast.NotIn: lambda a, b: a not in b}[op](l, r)
        except Exception as ex: raise PyRaise(ex)

    def e_Subscript(self, e, fr):
        obj = self.ev(e.value, fr); idx = self.ev(e.slice, fr)
        if is_repo_instance(obj):
            return self.call(BoundMethod(obj, find_in_mro(type(obj), "__getitem__")), [idx], {})
        if self.dict_is_symbolic(obj, idx):
            return self.dict_method(obj, "__getitem__", [idx], {})
        if self.is_sym(idx): raise Unsupported("symbolic subscript")
        try:
            r = obj[idx]
        except Exception as ex: raise PyRaise(ex)
        if isinstance(obj, SymBytes) and isinstance(idx, slice):
            return SymBytes(r)
        return r

    def _comp(self, e, fr, elt_fn):
        out = []
        saved = dict(fr.env)

        def rec(gi):
            if gi == len(e.generators):
                out.append(elt_fn())
                return
            g = e.generators[gi]
            for v in self.iterate(self.ev(g.iter, fr)):
                self.assign(g.target, v, fr)
                if all(self.ctx.truth(self.ev(c, fr)) for c in g.ifs):
                    rec(gi + 1)
        rec(0)
        # comprehension variables do not leak
        for k in list(fr.env):
            if k not in saved:
                del fr.env[k]
        fr.env.update(saved)
        return out

    def e_ListComp(self, e, fr):
        return self._comp(e, fr, lambda: self.ev(e.elt, fr))

    def e_GeneratorExp(self, e, fr):
        return self._comp(e, fr, lambda: self.ev(e.elt, fr))

    def e_SetComp(self, e, fr):
        return set(self._comp(e, fr, lambda: self.ev(e.elt, fr)))

    def e_DictComp(self, e, fr):
        return dict(self._comp(e, fr, lambda: (self.ev(e.key, fr), self.ev(e.value, fr))))

    def e_Dict(self, e, fr):
        return {self.ev(k, fr): self.ev(v, fr) for k, v in zip(e.keys, e.values)}

    def e_Set(self, e, fr):
        return set(self.ev_elts(e.elts, fr))

    def e_Slice(self, e, fr):
        return slice(*(self.ev(x, fr) if x is not None else None for x in (e.lower, e.upper, e.step)))

    def iterate(self, v):
        if is_repo_instance(v):
            m = find_in_mro(type(v), "__iter__")
            if m is not None: return self.iterate(self.call(BoundMethod(v, m), [], {}))
            raise Unsupported("iterate instance")
        if isinstance(v, (SymInt, SymBool)): raise PyRaise(TypeError("not iterable"))
        return v


class Frame:
    def __init__(self, f, env):
        self.f, self.env, self.cur_exc = f, env, None
        self.yields = []
        q = f.__qualname__.split(".")
        self.cls_name = q[-2] if len(q) >= 2 and q[-2] != "<locals>" else None


INTERP = Interp()


# ---------------- generators (yield) are not needed for the bits fragment; __iter__ of Bitset uses yield:
def _bitset_iter(I, self_):
    return I.call(BoundMethod(self_, find_in_mro(type(self_), "__getitem__")), [slice(None, None, None)], {})


# ---------------- intrinsics
def i_len(I, x):
    if is_repo_instance(x):
        return I.call(BoundMethod(x, find_in_mro(type(x), "__len__")), [], {})
    if isinstance(x, dict) and I._symkeys(x):
        return len(x) + len(I._symkeys(x))     # stores decide equality with every present key, so entries are distinct
    return len(x)

def i_int(I, x=0, base=None):
    if isinstance(x, SymInt): return x
    if isinstance(x, SymBool): return SymInt(z3.If(x.t, I.ctx.bv(1), I.ctx.bv(0)))
    if is_repo_instance(x):
        m = find_in_mro(type(x), "__int__")
        if m is None: raise PyRaise(TypeError("int()"))
        return I.call(BoundMethod(x, m), [], {})
    if isinstance(x, SymHex):
        return x.value
    try: return int(x) if base is None else int(x, base)
    except Exception as e: raise PyRaise(e)

def i_bool(I, x=False):
    if isinstance(x, SymBool): return x
    if isinstance(x, SymInt): return SymBool(x.t != 0)
    return I.ctx.truth(x)

def i_isinstance(I, x, t):
    ts = t if isinstance(t, tuple) else (t,)
    if isinstance(x, SymInt): return any(k in (int, object) for k in ts)
    if isinstance(x, SymBool): return any(k in (bool, int, object) for k in ts)
    return isinstance(x, t)

def i_max(I, *a):
    if len(a) == 1: a = tuple(a[0])
    if any(isinstance(x, SymInt) for x in a):
        cur = I.ctx.bv(a[0])
        for x in a[1:]:
            b = I.ctx.bv(x); cur = z3.If(b > cur, b, cur)
        return SymInt(cur)
    return max(a)

class SymBitLen(SymInt):
    """x.bit_length(), materialised as a W-deep ite chain only when it is used as a number; the common use
    `x.bit_length() > L` is compared as x >= 2**L"""
    __slots__ = ("x", "_t", "I")

    def __init__(self, I, x):
        self.x = x
        self._t = None
        self.I = I

    @property
    def t(self):
        if self._t is None:
            self._t = i_bit_length_full(self.I, self.x).t
        return self._t

    @t.setter
    def t(self, v):
        self._t = v


def i_bit_length(I, x):
    return SymBitLen(I, x)


def i_bit_length_full(I, x):
    W = I.ctx.W
    t = I.ctx.bv(0)
    ax = z3.If(x.t < 0, -x.t, x.t)
    for k in range(W - 1):
        t = z3.If(z3.Extract(k, k, ax) == 1, I.ctx.bv(k + 1), t)
    return SymInt(t)


class SymLog2:
    """over-approximated float result of math.log(v, 2) for symbolic v >= 1"""
    def __init__(self, v): self.v = v
LOG_MODE = "havoc"
def i_floor(I, x):
    if isinstance(x, SymLog2):
        ctx = I.ctx
        if FAST:
            ctx.fresh_ctr += 1
            h = z3.BitVec("floorlog_%d" % ctx.fresh_ctr, ctx.W)
            ctx.s.add(z3.If(x.v.t <= 0, h == -1, z3.And(h >= -1, h <= ctx.W)))
            return SymInt(h)
        bl = i_bit_length_full(I, x.v).t
        ctx.fresh_ctr += 1
        h = z3.BitVec("floorlog_%d" % ctx.fresh_ctr, ctx.W)
        ctx.s.add(z3.If(x.v.t <= 0, h == -1, z3.And(h >= bl - 2, h <= bl)))   # PROTOTYPE HACK: merged try/except diamond
        return SymInt(h)
    return math.floor(x)

def i_log(I, x, base=None):
    if isinstance(x, SymInt):
        if LOG_MODE == "havoc" and base == 2:
            return SymLog2(x)
        x = I.ctx.realize(x)
    try: return math.log(x) if base is None else math.log(x, base)
    except Exception as e: raise PyRaise(e)


class SymPacked:
    def __init__(self, parts): self.parts = parts
class SymHex:
    def __init__(self, value): self.value = value
class SymHmac:
    def __init__(self, I, key, msg, dig):
        self.I, self.key, self.msg, self.dig = I, key, msg, dig
    def hexdigest(self):
        I = self.I
        bits = []
        for p in self.msg.parts:
            if isinstance(p, SymBool): bits.append(z3.If(p.t, z3.BitVecVal(1, 1), z3.BitVecVal(0, 1)))
            elif isinstance(p, bool): bits.append(z3.BitVecVal(int(p), 1))
            elif isinstance(p, int): bits.append(z3.BitVecVal(p, 32))
            elif isinstance(p, tuple) and p[0] == "fmt":
                bits.append(z3.BitVecVal(int.from_bytes(_hashlib.sha256(p[1].encode()).digest()[:4], "big"), 32))
            elif isinstance(p, tuple) and p[0] == "raw":
                if p[1]:
                    bits.append(z3.BitVecVal(int.from_bytes(p[1], "big"), 8 * len(p[1])))
            else: raise Unsupported("packed part %r" % (p,))
        arg = z3.Concat(*bits) if len(bits) > 1 else bits[0]
        dname, dsize = _digest_info(self.dig)
        if I.is_sym(self.key):
            raise Unsupported("symbolic key with packed message")
        name = "HMAC_%s_%s_%d" % (dname, _hashlib.sha256(bytes(self.key)).hexdigest()[:12], arg.size())
        if name not in I.uf_cache:
            I.uf_cache[name] = z3.Function(name, z3.BitVecSort(arg.size()), z3.BitVecSort(8 * dsize))
        if 8 * dsize >= I.ctx.W:
            raise Unsupported("digest wider than W")
        return SymHex(SymInt(z3.ZeroExt(I.ctx.W - 8 * dsize, I.uf_cache[name](arg))))

def _digest_info(dig):
    if isinstance(dig, str):
        h = _hashlib.new(dig)
    elif callable(dig):
        h = dig()
    else:
        h = dig.new()
    return h.name, h.digest_size


class SymHmacBytes:
    """hmac.new(key, msg, digestmod) with symbolic message (and/or key) BYTES: uninterpreted function of the
    concatenated key||msg bits, per digest and per (key length, message length)"""

    def __init__(self, I, key, msg, dig):
        self.I, self.key, self.msg, self.dig = I, key, msg, dig
        self.name, self.digest_size = _digest_info(dig)
        self.block_size = 64

    def update(self, m):
        self.msg = _bytes_concat(self.msg, m)

    def digest(self):
        I = self.I
        parts = []
        for b in list(self.key) + list(self.msg):
            parts.append(z3.Extract(7, 0, b.t) if isinstance(b, SymInt) else z3.BitVecVal(int(b), 8))
        if not parts:
            parts = [z3.BitVecVal(0, 1)]
        arg = z3.Concat(*parts) if len(parts) > 1 else parts[0]
        fname = "HMACB_%s_%d_%d" % (self.name, len(self.key), len(self.msg))
        if fname not in I.uf_cache:
            I.uf_cache[fname] = z3.Function(fname, z3.BitVecSort(arg.size()), z3.BitVecSort(8 * self.digest_size))
        out = I.uf_cache[fname](arg)
        W = I.ctx.W
        res = []
        for i in range(self.digest_size):
            hi = 8 * (self.digest_size - i) - 1
            res.append(SymInt(z3.ZeroExt(W - 8, z3.Extract(hi, hi - 7, out))))
        return SymBytes(res)

    def hexdigest(self):
        raise Unsupported("hexdigest of a byte-level symbolic hmac")


def _bytes_concat(a, b):
    return SymBytes(tuple(a) + tuple(b))


def i_bytearray(I, x=()):
    return list(I.iterate(x))


def i_pack(I, fmt, *vals):
    if any(isinstance(v, (SymBool, SymInt)) for v in vals):
        return SymPacked([("fmt", fmt)] + list(vals))
    try:
        return struct.pack(fmt, *vals)
    except Exception as e:
        raise PyRaise(e)

def i_hmac_new(I, key, msg=None, digestmod=None):
    if isinstance(msg, SymPacked):
        return SymHmac(I, key, msg, digestmod)
    if isinstance(msg, SymBytes) or isinstance(key, SymBytes):
        return SymHmacBytes(I, key, b"" if msg is None else msg, digestmod)
    import hmac as _hmac
    try:
        return _hmac.new(key, msg, digestmod)
    except Exception as e:
        raise PyRaise(e)

class SymBytes(tuple):
    """concrete-length byte string whose bytes may be symbolic (SymInt of width W holding 0..255)"""

    def __getitem__(self, i):
        r = tuple.__getitem__(self, i)
        return SymBytes(r) if isinstance(i, slice) else r

    def __add__(self, other):
        return SymBytes(tuple(self) + tuple(other))

    def __radd__(self, other):
        return SymBytes(tuple(other) + tuple(self))


def i_from_bytes(I, b, byteorder="big", signed=False):
    ctx = I.ctx
    if not I.is_sym(b):
        try:
            return int.from_bytes(bytes(b), byteorder, signed=signed)
        except Exception as e:
            raise PyRaise(e)
    if byteorder != "big" or signed:
        raise Unsupported("from_bytes little/signed")
    if 8 * len(b) >= ctx.W - 1:
        raise Unsupported("from_bytes wider than W")
    t = ctx.bv(0)
    for x in b:
        t = (t << 8) | (ctx.bv(x) & ctx.bv(255))
    return SymInt(t)


def i_to_bytes(I, x, length, byteorder="big", signed=False):
    ctx = I.ctx
    if isinstance(length, SymInt):
        length = ctx.realize(length, cap=64)
    if byteorder != "big" or signed:
        raise Unsupported("to_bytes little/signed")
    if not isinstance(x, SymInt):
        try:
            return int(x).to_bytes(length, byteorder)
        except Exception as e:
            raise PyRaise(e)
    if 8 * length >= ctx.W - 1:
        raise Unsupported("to_bytes wider than W")
    if ctx.decide(z3.Or(x.t < 0, z3.UGE(x.t, ctx.bv(1 << (8 * length))))):
        raise PyRaise(OverflowError("int too big to convert"))
    out = []
    for i in range(length):
        sh = 8 * (length - 1 - i)
        out.append(SymInt(z3.LShR(x.t, ctx.bv(sh)) & ctx.bv(255)))
    return SymBytes(out)


def _dunder(I, x, name, native):
    if is_repo_instance(x):
        m = find_in_mro(type(x), name)
        if m is not None and is_repo_function(m):
            return I.call(BoundMethod(x, m), [], {})
    if I.is_sym(x):
        raise Unsupported("%s of a symbolic value" % name)
    try:
        return native(x)
    except Exception as e:
        raise PyRaise(e)


def i_bytes(I, *a, **kw):
    if len(a) == 1 and not kw:
        if isinstance(a[0], SymBytes):
            return a[0]
        if isinstance(a[0], (list, tuple)) and I.is_sym(a[0]):
            return SymBytes(a[0])
        return _dunder(I, a[0], "__bytes__", bytes)
    if any(I.is_sym(v) for v in a):
        raise Unsupported("bytes() of symbolic")
    try:
        return bytes(*a, **kw)
    except Exception as e:
        raise PyRaise(e)


def i_str(I, *a, **kw):
    if len(a) == 1 and not kw:
        return _dunder(I, a[0], "__str__", str)
    return str(*a, **kw)


def i_repr(I, x):
    return _dunder(I, x, "__repr__", repr)


def i_list(I, x=()):
    return list(I.iterate(x))


def install():
    import hmac
    I = INTERP
    I.intrinsics.update({bytes: i_bytes, str: i_str, repr: i_repr, list: i_list, bytearray: i_bytearray,
                         len: i_len, int: i_int, bool: i_bool, isinstance: i_isinstance, max: i_max,
                         math.floor: i_floor, math.log: i_log, struct.pack: i_pack, hmac.new: i_hmac_new,
                         "int.bit_length": i_bit_length, "int.to_bytes": i_to_bytes, int.from_bytes: i_from_bytes})

def _packed_add(a, b):
    if isinstance(b, SymPacked):
        return SymPacked(a.parts + b.parts)
    if isinstance(b, (bytes, bytearray)):
        return SymPacked(a.parts + [("raw", bytes(b))])
    return NotImplemented


SymPacked.__add__ = _packed_add


def explore(build, width=256, max_paths=10000, assert_timeout_ms=120000, dump_dir=None, tag="q"):
    """build(ctx) -> SymBool | bool | None.  Explores every path; each path's assertion is decided by a
    FRESH solver (non-incremental: much faster for the Feistel queries than the incremental one).
    Returns stats with 'refuted' = list of models (dict name -> int) and 'unknown' = count."""
    I = INTERP
    stack = [[]]
    stats = dict(paths=0, asserted=0, refuted=[], unknown=0, queries=0, solver_time=0.0, smt2=[])
    while stack:
        prefix = stack.pop()
        ctx = Ctx(width)
        ctx.prefix = prefix
        I.ctx = ctx
        I.uf_cache = {}
        I._symdicts = {}
        try:
            res = build(ctx)
        except Infeasible:
            res = None
        stack.extend(ctx.pending)
        stats["paths"] += 1
        if res is not None:
            stats["asserted"] += 1
            t = res.t if isinstance(res, SymBool) else z3.BoolVal(bool(res))
            s2 = z3.Solver()
            s2.set("timeout", assert_timeout_ms)
            for a_ in ctx.s.assertions():
                s2.add(a_)
            s2.add(z3.Not(t))
            if dump_dir:
                path = "%s/%s_%d.smt2" % (dump_dir, tag, stats["asserted"])
                open(path, "w").write("(set-logic QF_UFBV)\n" + s2.to_smt2())
                stats["smt2"].append(path)
            t0 = time.time()
            r = s2.check()
            ctx.queries += 1
            ctx.solver_time += time.time() - t0
            if r == z3.sat:
                m = s2.model()
                stats["refuted"].append({str(d): (m[d].as_long() if z3.is_bv_value(m[d]) else str(m[d]))
                                         for d in m.decls() if d.arity() == 0})
            elif r != z3.unsat:
                stats["unknown"] += 1
        stats["queries"] += ctx.queries
        stats["solver_time"] += ctx.solver_time
        if stats["paths"] >= max_paths:
            raise Unsupported("path bound")
    return stats
