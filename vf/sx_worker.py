"""SX worker: explores ONE obligation with CrossHair's symbolic execution engine.

Usage (always through vf.sx): python -m vf.sx_worker <spec.json> <out.json>

An obligation is a harness function  h(P, S) -> bool  living in /verif/harness.
  P  concrete partition parameters (dict)
  S  factory for the symbolic inputs of this obligation (SymFactory here,
     ReplayFactory in vf.replay for the native re-run)
The harness returns True when the property's assertion holds on the path, False
otherwise; exceptions escaping the harness are candidates as well.  The loop
below is crosshair.core.explore_paths with three changes: it reports whether the
path tree was exhausted, it counts paths by outcome, and it keeps going after a
counterexample (up to MAX_CEX) so that known findings do not mask new ones.
"""
import json
import os
import sys
import time
import traceback


def main():
    spec = json.load(open(sys.argv[1]))
    out_path = sys.argv[2]
    t_wall = time.time()
    res = {"name": spec["name"], "status": "INCONCLUSIVE", "reason": "", "paths": 0, "confirmed": 0,
           "unknown": 0, "ignored": 0, "cex": [], "exhausted": False, "queries": 0, "solver_s": 0.0}
    try:
        run(spec, res)
    except BaseException as e:  # the worker itself must always report
        res["status"] = "INCONCLUSIVE"
        res["reason"] = "worker error: %s" % "".join(traceback.format_exception_only(type(e), e)).strip()
        res["trace"] = traceback.format_exc()[-3000:]
    res["wall_s"] = round(time.time() - t_wall, 2)
    with open(out_path, "w") as f:
        json.dump(res, f)


class SymFactory:
    """creates the symbolic inputs of an obligation inside the current CrossHair state space"""

    symbolic = True

    def __init__(self):
        self.made = []  # (name, kind, value)
        self.tag = ""

    def fail(self, tag):
        """harness: `return S.fail("what")` marks the path as violating with a short tag"""
        self.tag = str(tag)
        return False

    def _reg(self, name, kind, v):
        self.made.append((name, kind, v))
        return v

    def int(self, name, lo=None, hi=None):
        from crosshair.libimpl.builtinslib import SymbolicBoundedInt
        from crosshair.tracers import NoTracing
        with NoTracing():
            v = SymbolicBoundedInt(name, int, lo, hi)
        return self._reg(name, "int", v)

    def bool(self, name):
        from crosshair.libimpl.builtinslib import SymbolicBool
        from crosshair.tracers import NoTracing
        with NoTracing():
            v = SymbolicBool(name, bool)
        return self._reg(name, "bool", v)

    def bytes(self, name, n, lo=0, hi=255):
        """byte string of CONCRETE length n whose n bytes are symbolic (each lo..hi)"""
        from crosshair.libimpl.builtinslib import SymbolicBoundedInt, SymbolicBytes
        from crosshair.tracers import NoTracing
        with NoTracing():
            cells = [SymbolicBoundedInt("%s_%d" % (name, i), int, lo, hi) for i in range(n)]
            v = SymbolicBytes(cells) if n else b""
        return self._reg(name, "bytes", v)

    def assume(self, cond):
        """adds a constraint WITHOUT forking when cond is a symbolic bool; rejects the path when it is false"""
        from crosshair.libimpl.builtinslib import SymbolicBool
        from crosshair.statespace import context_statespace
        from crosshair.tracers import NoTracing
        from crosshair.util import IgnoreAttempt
        with NoTracing():
            if isinstance(cond, SymbolicBool):
                space = context_statespace()
                if not space.is_possible(cond.var):
                    raise IgnoreAttempt("assumption unsatisfiable")
                space.add(cond.var)
                return
        if not cond:
            raise IgnoreAttempt("assumption false")

    def distinct(self, idents):
        """pairwise distinctness of identifiers made by ident()/bytes(), asserted directly (no forking)"""
        import z3
        from crosshair.statespace import context_statespace
        from crosshair.tracers import NoTracing
        with NoTracing():
            space = context_statespace()
            for a in range(len(idents)):
                for b in range(a + 1, len(idents)):
                    ca, cb = idents[a].inner, idents[b].inner
                    space.add(z3.Or(*[x.var != y.var for x, y in zip(ca, cb)]))

    def ident(self, name, size, zero_free_pos=None):
        """identifier of `size` bytes that cannot be all-zero: one byte position is 1..255, the others 0..255"""
        from crosshair.libimpl.builtinslib import SymbolicBoundedInt, SymbolicBytes
        from crosshair.tracers import NoTracing
        zp = (size - 1) if zero_free_pos is None else zero_free_pos % size
        with NoTracing():
            cells = [SymbolicBoundedInt("%s_%d" % (name, i), int, 1 if i == zp else 0, 255) for i in range(size)]
            v = SymbolicBytes(cells)
        return self._reg(name, "bytes", v)

    def pick(self, name, lo, hi):
        """small-range int that the harness forks on: returns a CONCRETE int per path"""
        v = self.int(name, lo, hi)
        for c in range(lo, hi):
            if v == c:
                return c
        return hi

    def choice(self, name, options):
        return options[self.pick(name, 0, len(options) - 1)]

    def concrete(self):
        from crosshair.core import deep_realize
        out = {}
        for name, kind, v in self.made:
            r = deep_realize(v)
            if kind == "bytes":
                r = bytes(r).hex()
            elif kind == "bool":
                r = bool(r)
            else:
                r = int(r)
            out[name] = r
        return out


def run(spec, res):
    import importlib
    import z3
    sys.setrecursionlimit(20000)
    # count solver work
    stats = {"q": 0, "t": 0.0}
    _orig_check = z3.Solver.check

    def _check(self, *a, **k):
        t = time.perf_counter()
        try:
            return _orig_check(self, *a, **k)
        finally:
            stats["q"] += 1
            stats["t"] += time.perf_counter() - t
    z3.Solver.check = _check

    import crosshair.core_and_libs  # noqa: F401  (registers the library models)
    from crosshair.core import Patched, ExceptionFilter, NotDeterministic
    from crosshair.condition_parser import condition_parser
    from crosshair.options import DEFAULT_OPTIONS, AnalysisKind
    from crosshair.statespace import (StateSpace, StateSpaceContext, RootNode, CallAnalysis,
                                      VerificationStatus)
    from crosshair.tracers import COMPOSITE_TRACER, NoTracing, ResumedTracing
    from crosshair.util import IgnoreAttempt, UnexploredPath

    from vf import sx_plugin
    layered = sx_plugin.install()

    mod = importlib.import_module(spec["module"])
    fn = getattr(mod, spec["func"])
    P = spec["params"]
    budget = float(spec.get("budget_s", 120))
    per_path = float(spec.get("per_path_s", 30))
    max_cex = int(spec.get("max_cex", 4))
    prepare = getattr(mod, "prepare", None)
    if prepare is not None:
        prepare(P)

    # functions of /repo that the obligation actually executes (measured on the first paths)
    seen_funcs = set()

    _REPO_PREFIX = os.environ.get("VERIF_REPO", "/repo").rstrip("/") + "/"

    def _prof(frame, event, arg):
        if event == "call":
            co = frame.f_code
            if co.co_filename.startswith(_REPO_PREFIX):
                seen_funcs.add("%s:%s" % (co.co_filename[len(_REPO_PREFIX):-3].replace("/", "."), co.co_qualname))
    search_root = RootNode()
    t0 = time.process_time()
    exhausted = False
    samples = []
    for it in range(1, 1000000):
        now = time.process_time()
        if now - t0 > budget:
            res["reason"] = "budget of %.0fs CPU exhausted after %d paths" % (budget, it - 1)
            break
        space = StateSpace(execution_deadline=now + per_path, model_check_timeout=per_path / 2,
                           search_root=search_root)
        S = SymFactory()
        sx_plugin.reset_path_state()
        status = None
        with condition_parser([AnalysisKind.PEP316]), Patched(), COMPOSITE_TRACER, NoTracing(), \
                StateSpaceContext(space):
            COMPOSITE_TRACER.patching_module.add(layered)
            try:
                ret = None
                with ExceptionFilter() as efilter, ResumedTracing():
                    if it <= 3:
                        sys.setprofile(_prof)
                    try:
                        ret = fn(P, S)
                    finally:
                        if it <= 3:
                            sys.setprofile(None)
                    ok = bool(ret)  # forks on a symbolic verdict: the solver decides both sides
                    if not ok:
                        res["cex"].append({"args": S.concrete(), "kind": "post", "tag": S.tag})
                    elif len(samples) < 3 or os.environ.get("VF_DEBUG_PATHS"):
                        samples.append(S.concrete())
                if efilter.user_exc:
                    exc = efilter.user_exc[0]
                    if isinstance(exc, NotDeterministic):
                        raise NotDeterministic
                    with ResumedTracing():
                        try:
                            args = S.concrete()
                        except Exception:
                            args = None
                    res["cex"].append({"args": args, "kind": "raise", "tag": "raise:" + type(exc).__name__,
                                       "exc": "%s: %s" % (type(exc).__name__, str(exc)[:300]),
                                       "tb": "".join(traceback.format_list(efilter.user_exc[1])[-6:])[-1500:]})
                elif efilter.ignore:
                    raise IgnoreAttempt
                status = VerificationStatus.CONFIRMED
                res["confirmed"] += 1
            except IgnoreAttempt:
                status = None
                res["ignored"] += 1
            except UnexploredPath as e:
                status = VerificationStatus.UNKNOWN
                res["unknown"] += 1
                if not res.get("unknown_why"):
                    res["unknown_why"] = "%s: %s | %s" % (type(e).__name__, str(e)[:200],
                                                          traceback.format_exc()[-1200:])
            except NotDeterministic:
                status = VerificationStatus.UNKNOWN
                res["unknown"] += 1
                res["reason"] = "NotDeterministic"
            finally:
                COMPOSITE_TRACER.patching_module.pop(layered)
            _a, exhausted = space.bubble_status(CallAnalysis(status))
        res["paths"] = it
        if exhausted:
            break
        if len(res["cex"]) >= max_cex:
            res["reason"] = "stopped after %d counterexample candidates" % max_cex
            break
    res["exhausted"] = bool(exhausted)
    res["queries"] = stats["q"]
    res["solver_s"] = round(stats["t"], 3)
    res["samples"] = samples
    res["functions"] = sorted(seen_funcs)
    res["cpu_s"] = round(time.process_time() - t0, 2)
    if res["cex"]:
        res["status"] = "CANDIDATE"
    elif exhausted and res["unknown"] == 0:
        res["status"] = "HOLDS"
    else:
        res["status"] = "INCONCLUSIVE"
        if not res["reason"]:
            res["reason"] = "exhausted=%s unknown=%d" % (exhausted, res["unknown"])


if __name__ == "__main__":
    main()
