"""CrossHair-side environment models registered by the SX worker (part of every SX claim).

operator.index(x): CrossHair's SymbolicInt.__index__ realises the value, i.e. an unbounded symbolic index is
enumerated integer by integer.  For an int argument operator.index is the identity, so the patch returns a
symbolic int unchanged and defers to the real function for everything else.
pickle/json: C functions that cannot take proxies -> same function on deep-realised arguments.
"""
import json as _json
import operator
import pickle as _pickle

_LRU = {}      # emulated functools.lru_cache contents of the current path


def reset_path_state():
    _LRU.clear()


def install():
    from crosshair.core import register_patch, deep_realize, python_type
    from crosshair.tracers import NoTracing
    from crosshair.libimpl.builtinslib import SymbolicInt

    _orig_index = operator.index

    def _index(x):
        with NoTracing():
            if isinstance(x, SymbolicInt):
                return x
        return _orig_index(x)
    register_patch(operator.index, _index)

    # slice.indices: C function that calls __index__ on every component (= realisation).  Pure-Python
    # re-statement of CPython's PySlice_Unpack/AdjustIndices (the reference implementation used by
    # CPython's own test_slice), so slice bounds stay symbolic.
    _orig_indices = slice.indices

    def _indices(self, length):
        with NoTracing():
            symbolic = any(isinstance(v, SymbolicInt) for v in (self.start, self.stop, self.step, length))
        if not symbolic:
            return _orig_indices(self, length)
        if length < 0:
            raise ValueError("length should not be negative")
        step = 1 if self.step is None else _index(self.step)
        if step == 0:
            raise ValueError("slice step cannot be zero")
        if step < 0:
            lower, upper = -1, length - 1
        else:
            lower, upper = 0, length
        if self.start is None:
            start = upper if step < 0 else lower
        else:
            start = _index(self.start)
            if start < 0:
                start = start + length
                if start < lower:
                    start = lower
            elif start > upper:
                start = upper
        if self.stop is None:
            stop = lower if step < 0 else upper
        else:
            stop = _index(self.stop)
            if stop < 0:
                stop = stop + length
                if stop < lower:
                    stop = lower
            elif stop > upper:
                stop = upper
        return (start, stop, step)
    register_patch(slice.indices, _indices)

    # bytes(obj): CrossHair's patch iterates any iterable argument and ignores __bytes__ (toolkit.bits.Bitset is
    # a Sequence of bools WITH __bytes__: bytes(Bitset) came back as one byte per bit), and it rejects the
    # encoding= keyword.  Python's rule: __bytes__ wins; str needs an encoding.
    from crosshair.util import CrossHairValue
    layered = {}      # overrides stacked ON TOP of CrossHair's own patches (see sx_worker: patching_module.add)

    def _bytes2(*a, **kw):
        dunder = None
        with NoTracing():
            if len(a) == 1 and not kw:
                src = a[0]
                if not isinstance(src, (CrossHairValue, bytes, bytearray, memoryview, str, int)):
                    dunder = getattr(type(src), "__bytes__", None)
        if dunder is not None:
            return dunder(a[0])
        if kw or len(a) > 1:
            src = a[0] if a else kw["source"]
            enc = kw.get("encoding", a[1] if len(a) > 1 else "utf-8")
            err = kw.get("errors", a[2] if len(a) > 2 else "strict")
            return src.encode(enc, err)
        return bytes(*a)          # resolves to CrossHair's own bytes patch (next layer)
    layered[bytes] = _bytes2

    # int(obj) with a Python-level __int__ returning a symbolic int: the C slot wrapper rejects the proxy
    # ("__int__ returned non-int"); call the method directly (its result IS the int, symbolic or not).

    def _int2(*a, **kw):
        dunder = None
        with NoTracing():
            if len(a) == 1 and not kw:
                src = a[0]
                if not isinstance(src, (CrossHairValue, int, float, str, bytes, bytearray)):
                    d = getattr(type(src), "__int__", None)
                    if d is not None and hasattr(d, "__code__"):
                        dunder = d
        if dunder is not None:
            r = dunder(a[0])
            return r
        return int(*a, **kw)      # resolves to CrossHair's own int patch (next layer)
    layered[int] = _int2

    # int.bit_length of a symbolic int: CrossHair realises (enumerates) the value.  Model: a fresh int r tied to
    # |x| by the defining inequalities 2^(r-1) <= |x| < 2^r for r <= 72 (no fork); wider values fall back to
    # CrossHair's realisation.
    import z3 as _z3
    from crosshair.statespace import context_statespace
    from crosshair.libimpl.builtinslib import SymbolicBoundedInt
    _orig_bit_length = int.bit_length
    _K = 72

    def _bit_length(self):
        with NoTracing():
            if not isinstance(self, SymbolicInt):
                return _orig_bit_length(self)
            space = context_statespace()
            x = self.var
            ax = _z3.If(x >= 0, x, -x)
            if space.is_possible(ax >= 2 ** _K):
                wide = True
            else:
                wide = False
                r = SymbolicBoundedInt("bitlen" + space.uniq(), int, 0, _K)
                cases = [_z3.And(r.var == 0, ax == 0)]
                for k in range(1, _K + 1):
                    cases.append(_z3.And(r.var == k, ax >= 2 ** (k - 1), ax < 2 ** k))
                space.add(_z3.Or(*cases))
                return r
        from crosshair.core import realize
        return _orig_bit_length(realize(self))
    layered[int.bit_length] = _bit_length

    # functools.lru_cache: CrossHair bypasses every cache (the wrapped function runs on each call), which would
    # hide a defect that consists of caching something that must be fresh.  Model: a faithful per-path cache for
    # calls whose arguments are all concrete (the cache is empty at the start of every path = process start);
    # calls with symbolic arguments keep CrossHair's behaviour.
    from functools import _lru_cache_wrapper

    def _cached_call(self, *a, **kw):
        with NoTracing():
            concrete = not any(isinstance(v, CrossHairValue) for v in list(a) + list(kw.values()))
            key = None
            if concrete:
                try:
                    key = (id(self), a, tuple(sorted(kw.items())))
                    hash(key)
                except TypeError:
                    key = None
            if key is not None and key in _LRU:
                return _LRU[key]
        r = self.__wrapped__(*a, **kw)
        if key is not None:
            with NoTracing():
                _LRU[key] = r
        return r
    layered[_lru_cache_wrapper.__call__] = _cached_call

    _orig_dumps = _pickle.dumps

    def _dumps(obj, *a, **kw):
        obj = deep_realize(obj)
        with NoTracing():
            return _orig_dumps(obj, *a, **kw)
    register_patch(_pickle.dumps, _dumps)

    _orig_dump = _pickle.dump

    def _dump(obj, f, *a, **kw):
        obj = deep_realize(obj)
        with NoTracing():
            return _orig_dump(obj, f, *a, **kw)
    register_patch(_pickle.dump, _dump)

    _orig_loads = _pickle.loads

    def _loads(data, *a, **kw):
        data = deep_realize(data)
        with NoTracing():
            return _orig_loads(data, *a, **kw)
    register_patch(_pickle.loads, _loads)
    return layered
