"""CrossHair-side environment models registered by the SX worker (part of every SX claim).

operator.index(x): CrossHair's SymbolicInt.__index__ realises the value, i.e. an unbounded symbolic index is
enumerated integer by integer.  For an int argument operator.index is the identity, so the patch returns a
symbolic int unchanged and defers to the real function for everything else.
pickle/json: C functions that cannot take proxies -> same function on deep-realised arguments.
"""
import json as _json
import operator
import pickle as _pickle


def install():
    from crosshair.core import register_patch, deep_realize, python_type
    from crosshair.tracers import NoTracing
    from crosshair.libimpl.builtinslib import SymbolicInt

    _orig_index = operator.index

    def _index(x):
        with NoTracing():
            if isinstance(x, SymbolicInt):
                return x
        return _orig_index(x)
    register_patch(operator.index, _index)

    # slice.indices: C function that calls __index__ on every component (= realisation).  Pure-Python
    # re-statement of CPython's PySlice_Unpack/AdjustIndices (the reference implementation used by
    # CPython's own test_slice), so slice bounds stay symbolic.
    _orig_indices = slice.indices

    def _indices(self, length):
        with NoTracing():
            symbolic = any(isinstance(v, SymbolicInt) for v in (self.start, self.stop, self.step, length))
        if not symbolic:
            return _orig_indices(self, length)
        if length < 0:
            raise ValueError("length should not be negative")
        step = 1 if self.step is None else _index(self.step)
        if step == 0:
            raise ValueError("slice step cannot be zero")
        if step < 0:
            lower, upper = -1, length - 1
        else:
            lower, upper = 0, length
        if self.start is None:
            start = upper if step < 0 else lower
        else:
            start = _index(self.start)
            if start < 0:
                start = start + length
                if start < lower:
                    start = lower
            elif start > upper:
                start = upper
        if self.stop is None:
            stop = lower if step < 0 else upper
        else:
            stop = _index(self.stop)
            if stop < 0:
                stop = stop + length
                if stop < lower:
                    stop = lower
            elif stop > upper:
                stop = upper
        return (start, stop, step)
    register_patch(slice.indices, _indices)

    _orig_dumps = _pickle.dumps

    def _dumps(obj, *a, **kw):
        obj = deep_realize(obj)
        with NoTracing():
            return _orig_dumps(obj, *a, **kw)
    register_patch(_pickle.dumps, _dumps)

    _orig_dump = _pickle.dump

    def _dump(obj, f, *a, **kw):
        obj = deep_realize(obj)
        with NoTracing():
            return _orig_dump(obj, f, *a, **kw)
    register_patch(_pickle.dump, _dump)

    _orig_loads = _pickle.loads

    def _loads(data, *a, **kw):
        data = deep_realize(data)
        with NoTracing():
            return _orig_loads(data, *a, **kw)
    register_patch(_pickle.loads, _loads)
