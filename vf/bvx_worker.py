"""BVX worker: explores ONE obligation with the AST-to-SMT interpreter (bvx/).

python -m vf.bvx_worker <spec.json> <out.json>

1. translator self-validation: the harness runs N times on random concrete inputs with every call executed
   both by the interpreter and natively (bvx.api.CheckedX); any disagreement -> INCONCLUSIVE, no verdict.
2. symbolic exploration: all paths; per path the negated verdict goes to a fresh z3 solver; sat -> model ->
   counterexample candidate (replayed natively by the runner); unknown / Unsupported -> INCONCLUSIVE.
3. optional cross-solver step: every assertion query is dumped as SMT-LIB2 and decided again by the
   /usr/bin/z3 4.8.12 binary; a disagreement or an (error line is INCONCLUSIVE.
"""
import importlib
import json
import os
import random
import subprocess
import sys
import time
import traceback


def main():
    spec = json.load(open(sys.argv[1]))
    out_path = sys.argv[2]
    t0 = time.time()
    res = {"name": spec["name"], "status": "INCONCLUSIVE", "reason": "", "paths": 0, "confirmed": 0, "cex": [],
           "queries": 0, "solver_s": 0.0, "samples": [], "functions": []}
    try:
        run(spec, res)
    except BaseException as e:
        res["status"] = "INCONCLUSIVE"
        res["reason"] = "bvx worker error: %s" % "".join(traceback.format_exception_only(type(e), e)).strip()[:400]
        res["trace"] = traceback.format_exc()[-2500:]
    res["wall_s"] = round(time.time() - t0, 2)
    json.dump(res, open(out_path, "w"))


def run(spec, res):
    sys.setrecursionlimit(20000)
    from bvx import interp as B
    from bvx import api
    B.install()
    mod = importlib.import_module(spec["module"])
    fn = getattr(mod, spec["func"])
    P = spec["params"]
    W = int(P.get("W", 256))
    # 1. self-validation of the translator on concrete inputs
    rng = random.Random(int(P.get("seed", 0)) * 7919 + 13)
    nval = int(spec.get("selftest", 12))
    for k in range(nval):
        cx = api.CheckedX(rng, W)
        try:
            ok = fn(P, cx)
        except api.Raised as r:
            ok = "raised %r" % (r.exc,)
        except B.Unsupported as u:
            res["reason"] = "translator self-validation: unsupported construct %s" % u
            return
        if cx.mismatch:
            res["reason"] = "translator self-validation failed: " + cx.mismatch
            return
        if ok is not True:
            # the property already fails on a concrete input: report it as a candidate (replayed natively)
            res["cex"].append({"args": dict(cx.used), "kind": "post", "tag": "concrete-selftest", "note": str(ok)[:200]})
            res["status"] = "CANDIDATE"
            res["reason"] = "harness verdict false on a random concrete input"
            return
    res["selftest_runs"] = nval
    # 2. symbolic exploration
    dump_dir = P["_scratch"] if spec.get("cross") else None
    names = []

    def build(ctx):
        X = api.SymX(ctx)
        try:
            v = fn(P, X)
        except api.Raised as r:
            v = False
            X.raised = r
        names[:] = X.names
        return v
    t = time.time()
    try:
        st = B.explore(build, width=W, max_paths=int(spec.get("max_paths", 4000)),
                       assert_timeout_ms=int(float(spec.get("per_path_s", 120)) * 1000), dump_dir=dump_dir,
                       tag="q")
    except B.Unsupported as u:
        res["reason"] = "unsupported: %s" % u
        return
    res["paths"] = st["paths"]
    res["confirmed"] = st["asserted"]
    res["queries"] = st["queries"]
    res["solver_s"] = round(st["solver_time"], 3)
    res["functions"] = sorted(B.INTERP.calls)
    res["samples"] = [{"W": W, "asserted_paths": st["asserted"], "interpreted_calls": dict(list(B.INTERP.calls.items())[:8])}]
    for m in st["refuted"][:int(spec.get("max_cex", 4))]:
        res["cex"].append({"args": {k: v for k, v in m.items() if k in names or True}, "kind": "post", "tag": "smt-model"})
    if st["unknown"]:
        res["reason"] = "%d assertion queries returned unknown/timeout" % st["unknown"]
        res["status"] = "INCONCLUSIVE"
        return
    if res["cex"]:
        res["status"] = "CANDIDATE"
        return
    if st["asserted"] == 0:
        res["reason"] = "no path reached the assertion"
        return
    # 3. cross-solver
    if dump_dir:
        agree = 0
        for path in st["smt2"]:
            txt = open(path).read() + "\n(check-sat)\n"
            open(path, "w").write(txt)
            try:
                p = subprocess.run(["/usr/bin/z3", "-T:%d" % int(spec.get("cross_timeout_s", 120)), path],
                                   capture_output=True, text=True, timeout=int(spec.get("cross_timeout_s", 120)) + 30)
                out = p.stdout.strip()
            except subprocess.TimeoutExpired:
                out = "timeout"
            if "(error" in out or out.split("\n")[0].strip() != "unsat":
                res["reason"] = "cross-solver (/usr/bin/z3) answered %r" % out[:100]
                res["status"] = "INCONCLUSIVE"
                return
            agree += 1
            os.unlink(path)
        res["cross_solver_agree"] = agree
    res["status"] = "HOLDS"


if __name__ == "__main__":
    main()
