"""./check <property-id> [--tier quick|thorough]   |   ./check --replay <file>"""
import argparse
import importlib
import json
import os
import sys

from vf import runner


def main():
    ap = argparse.ArgumentParser()
    ap.add_argument("prop", nargs="?")
    ap.add_argument("--tier", default=os.environ.get("VERIF_TIER", "quick"), choices=["quick", "thorough"])
    ap.add_argument("--replay")
    ap.add_argument("--only", help="substring filter on obligation names (debugging)")
    ap.add_argument("--list", action="store_true")
    a = ap.parse_args()
    seed = int(os.environ.get("VERIF_SEED", "0") or 0)
    if a.replay:
        body = json.load(open(a.replay))
        import tempfile, shutil
        d = tempfile.mkdtemp(prefix="vf_replay_")
        try:
            rr = runner.replay_native(body["obligation"], body["cex"], d)
        finally:
            shutil.rmtree(d, ignore_errors=True)
        print(json.dumps(rr, indent=1))
        if rr.get("violated"):
            print("VIOLATION property=%s replay=%s" % (body["property"], a.replay))
            return 1
        return 0
    if not a.prop:
        ap.error("property id required")
    prop = a.prop.upper()
    mod = importlib.import_module("harness.%s" % prop.lower())
    obs = mod.obligations(a.tier, seed)
    if a.only:
        obs = [o for o in obs if a.only in o["name"]]
    if a.list:
        for o in obs:
            print(o["name"], o.get("engine", "sx"), o.get("budget_s"), o.get("expect", "holds"))
        return 0
    return runner.run_property(prop, a.tier, obs, mod.META, seed)


if __name__ == "__main__":
    sys.exit(main())
