"""native worker: an obligation that cannot be encoded for the solver (e.g. float math.log inside
Bitset.__init__) is decided by running the real code on a finite, stated family of concrete values.
Used sparingly and labelled as such in the evidence."""
import importlib
import json
import sys
import time
import traceback


def main():
    spec = json.load(open(sys.argv[1]))
    res = {"name": spec["name"], "status": "INCONCLUSIVE", "reason": "", "paths": 0, "confirmed": 0, "cex": [],
           "queries": 0, "solver_s": 0.0, "samples": []}
    t0 = time.time()
    try:
        mod = importlib.import_module(spec["module"])
        prep = getattr(mod, "prepare", None)
        P = dict(spec["params"])
        P["_native"] = True
        if prep:
            prep(P)
        n, bad, samples = getattr(mod, spec["func"])(P)
        res["paths"] = res["confirmed"] = n
        res["samples"] = samples[:3]
        for b in bad[:int(spec.get("max_cex", 4))]:
            res["cex"].append({"args": b.get("args"), "kind": "post", "tag": b.get("tag", ""), "native": True,
                               "detail": b.get("detail", "")})
        res["status"] = "CANDIDATE" if bad else "HOLDS"
    except BaseException as e:
        res["reason"] = "native worker error: " + "".join(traceback.format_exception_only(type(e), e)).strip()[:300]
        res["trace"] = traceback.format_exc()[-2000:]
    res["wall_s"] = round(time.time() - t0, 2)
    json.dump(res, open(sys.argv[2], "w"))


if __name__ == "__main__":
    main()
