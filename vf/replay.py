"""Native replay of a counterexample candidate: plain interpreter, no tracer, real primitives.

python -m vf.replay <spec.json> <cex.json>  ->  prints one JSON line {"violated": bool, "detail": str}

The harness function is called with a ReplayFactory that hands back the recorded
concrete values; P["_native"] is True so the harness installs no ideal stubs.  A
harness module may define  replay(P, args) -> (violated, detail)  to state the
property natively in another way; otherwise the harness function itself is reused.
"""
import importlib
import json
import sys
import traceback


class ReplayError(BaseException):
    """the recorded counterexample cannot be replayed (values missing): inconclusive, never a violation"""


class ReplayFactory:
    symbolic = False

    def __init__(self, args):
        self.args = args or {}
        self.tag = ""

    def fail(self, tag):
        self.tag = str(tag)
        return False

    def _get(self, name):
        if name not in self.args:
            raise ReplayError("replay value for %r missing" % name)
        return self.args[name]

    def int(self, name, lo=None, hi=None):
        return int(self._get(name))

    def bool(self, name):
        return bool(self._get(name))

    def bytes(self, name, n, lo=0, hi=255):
        return bytes.fromhex(self._get(name)) if n else b""

    def assume(self, cond):
        if not cond:
            raise AssertionError("replayed values violate a harness assumption")

    def distinct(self, idents):
        if len(set(idents)) != len(idents):
            raise AssertionError("replayed identifiers are not pairwise distinct")

    def ident(self, name, size, zero_free_pos=None):
        return bytes.fromhex(self._get(name))

    def pick(self, name, lo, hi):
        return int(self._get(name))

    def choice(self, name, options):
        return options[int(self._get(name))]


def run_native(spec, cex):
    mod = importlib.import_module(spec["module"])
    P = dict(spec["params"])
    P["_native"] = True
    prepare = getattr(mod, "prepare", None)
    if prepare is not None:
        prepare(P)
    custom = getattr(mod, "replay", None)
    if custom is not None:
        r = custom(spec, P, cex)
        if r is not None:
            return r
    fn = getattr(mod, spec["func"])
    if spec.get("engine") == "bvx":
        from bvx.api import NativeX, Raised
        X = NativeX(cex.get("args"), None, W=int(P.get("W", 4096)))
        try:
            ok = fn(P, X)
        except Raised as r:
            return True, "raise:%s: %s" % (type(r.exc).__name__, str(r.exc)[:200]), "raise:" + type(r.exc).__name__
        if ok is not True:
            return True, "BVX harness verdict false natively for %s" % json.dumps(X.used)[:300], "verdict-false"
        # the model may depend on values of an uninterpreted function (a hypothetical round function): look for a
        # concrete input on which the REAL primitive shows the same failure (bounded native search)
        import random, time
        rng = random.Random(12345)
        t0 = time.time()
        tries = 0
        while tries < int(P.get("native_search", 4000)) and time.time() - t0 < 40:
            tries += 1
            X = NativeX(None, rng, W=int(P.get("W", 4096)))
            try:
                ok = fn(P, X)
            except Raised as r:
                return True, "raise:%s: %s for %s" % (type(r.exc).__name__, str(r.exc)[:120], json.dumps(X.used)[:200]), \
                    "raise:" + type(r.exc).__name__
            if ok is not True:
                return True, "BVX harness verdict false natively for %s (found by native search after the SMT model " \
                             "pointed at an uninterpreted-function value)" % json.dumps(X.used)[:300], "verdict-false"
        return False, "holds natively (also on %d random inputs)" % tries, ""
    S = ReplayFactory(cex.get("args"))
    try:
        ok = fn(P, S)
    except Exception as e:
        return True, "raise:%s: %s" % (type(e).__name__, str(e)[:200]), "raise:" + type(e).__name__
    if ok:
        return False, "holds natively", ""
    return True, "harness assertion fails natively (%s)" % S.tag, S.tag


def main():
    spec = json.load(open(sys.argv[1]))
    cex = json.load(open(sys.argv[2]))
    try:
        r = run_native(spec, cex)
        violated, detail = r[0], r[1]
        tag = r[2] if len(r) > 2 else cex.get("tag", "")
        print(json.dumps({"violated": bool(violated), "detail": detail, "tag": tag}))
    except BaseException as e:
        print(json.dumps({"violated": False, "detail": "replay harness error: " + traceback.format_exc()[-800:],
                          "tag": "", "error": True}))


if __name__ == "__main__":
    main()
