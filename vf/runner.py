"""Obligation runner: one OS process per obligation, up to JOBS in parallel, native replay of
every counterexample candidate, known-findings classification, evidence."""
import fnmatch
import hashlib
import json
import os
import re
import shutil
import subprocess
import sys
import tempfile
import time
from concurrent.futures import ThreadPoolExecutor

ROOT = os.path.dirname(os.path.dirname(os.path.abspath(__file__)))
PY = os.path.join(ROOT, ".venv", "bin", "python")
JOBS = int(os.environ.get("VERIF_JOBS", "14"))

WORKERS = {"sx": "vf.sx_worker", "bvx": "vf.bvx_worker", "native": "vf.native_worker"}


def _env():
    e = dict(os.environ)
    e["PYTHONPATH"] = ROOT + os.pathsep + os.environ.get("VERIF_REPO", "/repo")
    e["PYTHONDONTWRITEBYTECODE"] = "1"
    e["PYTHONHASHSEED"] = "0"
    e.setdefault("SSEPY_VERIF", "1")
    return e


def run_worker(ob, scratch):
    """runs one obligation in a subprocess; returns its result dict"""
    tag = hashlib.sha1(ob["name"].encode()).hexdigest()[:10]
    spec_path = os.path.join(scratch, tag + ".spec.json")
    out_path = os.path.join(scratch, tag + ".out.json")
    wdir = os.path.join(scratch, tag + ".d")
    shutil.rmtree(wdir, ignore_errors=True)      # a killed earlier attempt may have left files behind
    os.makedirs(wdir, exist_ok=True)
    spec = dict(ob)
    spec["params"] = dict(ob.get("params", {}))
    spec["params"]["_scratch"] = wdir
    json.dump(spec, open(spec_path, "w"))
    budget = float(ob.get("budget_s", 120))
    env = _env()
    env["HOME"] = wdir
    env["TMPDIR"] = wdir
    t = time.time()
    try:
        p = subprocess.run([PY, "-m", WORKERS[ob.get("engine", "sx")], spec_path, out_path],
                           cwd=ROOT, env=env, capture_output=True, text=True,
                           timeout=budget * 2.0 + 120)
        stderr = p.stderr[-2000:]
    except subprocess.TimeoutExpired:
        shutil.rmtree(wdir, ignore_errors=True)
        return {"name": ob["name"], "status": "INCONCLUSIVE", "reason": "worker wall-clock timeout",
                "paths": 0, "queries": 0, "solver_s": 0.0, "cex": [], "wall_s": time.time() - t}
    try:
        res = json.load(open(out_path))
    except Exception:
        res = {"name": ob["name"], "status": "INCONCLUSIVE", "reason": "worker died: " + stderr[-600:],
               "paths": 0, "queries": 0, "solver_s": 0.0, "cex": []}
    res.setdefault("wall_s", time.time() - t)
    shutil.rmtree(wdir, ignore_errors=True)
    if os.environ.get("VERIF_PROGRESS", "1") != "0":
        sys.stderr.write("[%s] %-44s %-12s paths=%-6s cex=%d %.0fs %s\n" % (
            time.strftime("%H:%M:%S"), ob["name"], res.get("status"), res.get("paths"), len(res.get("cex", [])),
            res["wall_s"], res.get("reason", "")[:80]))
        sys.stderr.flush()
    return res


def replay_native(ob, cex, scratch):
    tag = hashlib.sha1((ob["name"] + json.dumps(cex, sort_keys=True)).encode()).hexdigest()[:10]
    spec_path = os.path.join(scratch, tag + ".rspec.json")
    cex_path = os.path.join(scratch, tag + ".cex.json")
    wdir = os.path.join(scratch, tag + ".rd")
    os.makedirs(wdir, exist_ok=True)
    spec = dict(ob)
    spec["params"] = dict(ob.get("params", {}))
    spec["params"]["_scratch"] = wdir
    json.dump(spec, open(spec_path, "w"))
    json.dump(cex, open(cex_path, "w"))
    env = _env()
    env["HOME"] = wdir
    env["TMPDIR"] = wdir
    try:
        p = subprocess.run([PY, "-m", "vf.replay", spec_path, cex_path], cwd=ROOT, env=env,
                           capture_output=True, text=True, timeout=600)
        line = [l for l in p.stdout.splitlines() if l.startswith("{")][-1]
        r = json.loads(line)
    except Exception as e:
        r = {"violated": False, "detail": "replay failed to run: %r" % (e,), "error": True, "tag": ""}
    shutil.rmtree(wdir, ignore_errors=True)
    return r


def load_findings():
    p = os.path.join(ROOT, "known_findings.json")
    try:
        return json.load(open(p)).get("findings", [])
    except FileNotFoundError:
        return []


def match_finding(findings, prop, ob_name, tag, detail):
    for f in findings:
        if f.get("status") != "open" or f.get("property") != prop:
            continue
        if not fnmatch.fnmatch(ob_name, f.get("obligation", "*")):
            continue
        if f.get("tag") and f["tag"] != tag:
            continue
        if f.get("tag_regex") and not re.search(f["tag_regex"], tag or ""):
            continue
        if f.get("detail_regex") and not re.search(f["detail_regex"], detail or ""):
            continue
        return f
    return None


def run_property(prop, tier, obligations, meta, seed=0):
    """Runs all obligations; prints KNOWN-FINDING / VIOLATION lines; writes evidence; returns exit code."""
    t0 = time.time()
    seen_names, uniq = set(), []
    for o in obligations:          # obligation names identify scratch directories and results: they must be unique
        if o["name"] not in seen_names:
            seen_names.add(o["name"])
            uniq.append(o)
    obligations = uniq
    scratch = tempfile.mkdtemp(prefix="vf_%s_" % prop)
    findings = load_findings()
    results = []
    try:
        order = sorted(obligations, key=lambda o: -float(o.get("budget_s", 120)))
        with ThreadPoolExecutor(max_workers=JOBS) as ex:
            futs = [(ob, ex.submit(run_worker, ob, scratch)) for ob in order]
            for ob, fu in futs:
                results.append((ob, fu.result()))
        # native replays of all counterexample candidates, in parallel
        todo = []
        for ob, r in results:
            if ob.get("expect", "holds") == "holds" and r["status"] == "CANDIDATE":
                for cex in r["cex"]:
                    if not (ob.get("engine") == "native" or cex.get("native")):
                        todo.append((ob, cex))
        if todo:
            with ThreadPoolExecutor(max_workers=JOBS) as ex:
                futs = [(cex, ex.submit(replay_native, ob, cex, scratch)) for ob, cex in todo]
                for cex, fu in futs:
                    cex["replay"] = fu.result()

        # one retry with a doubled budget for inconclusive obligations (DESIGN 1)
        retry = [(i, ob) for i, (ob, r) in enumerate(results)
                 if r["status"] == "INCONCLUSIVE" and ob.get("expect", "holds") == "holds"
                 and "worker error" not in r.get("reason", "")]
        # ... unless a reproduced, unlisted violation already decides the run (exit 1 either way): then the budget
        # overruns of the other obligations - typical for a broken tree - are reported as they are
        decided = False
        for ob, r in results:
            if ob.get("expect", "holds") == "holds" and r["status"] == "CANDIDATE":
                for cex in r["cex"]:
                    rr = cex.get("replay") or ({"violated": True, "tag": cex.get("tag", ""), "detail": cex.get("detail", "")}
                                               if (ob.get("engine") == "native" or cex.get("native")) else {})
                    if rr.get("violated") and match_finding(findings, prop, ob["name"], rr.get("tag") or cex.get("tag", ""),
                                                            rr.get("detail", "")) is None:
                        decided = True
        if retry and not decided:
            with ThreadPoolExecutor(max_workers=JOBS) as ex:
                futs = []
                for i, ob in retry:
                    ob2 = dict(ob)
                    ob2["budget_s"] = float(ob.get("budget_s", 120)) * 2
                    ob2["per_path_s"] = float(ob.get("per_path_s", 30)) * 2
                    futs.append((i, ob, ex.submit(run_worker, ob2, scratch)))
                for i, ob, fu in futs:
                    r2 = fu.result()
                    r2["retried"] = True
                    results[i] = (ob, r2)

        violations, known, inconclusive = [], [], []
        twins_refuted = 0
        for ob, r in results:
            expect = ob.get("expect", "holds")
            if expect == "refuted":  # reachability twin / vacuity witness
                if r["status"] == "CANDIDATE":
                    twins_refuted += 1
                    r["verdict"] = "TWIN-REFUTED"
                else:
                    r["verdict"] = "INCONCLUSIVE"
                    inconclusive.append((ob, "vacuity twin not refuted: %s %s" % (r["status"], r.get("reason", ""))))
                continue
            if r["status"] == "HOLDS":
                r["verdict"] = "HOLDS"
                continue
            if r["status"] == "INCONCLUSIVE":
                r["verdict"] = "INCONCLUSIVE"
                inconclusive.append((ob, r.get("reason", "")))
                continue
            # CANDIDATE: replay each counterexample natively
            any_real = False
            for cex in r["cex"]:
                if ob.get("engine") == "native" or cex.get("native"):
                    rr = {"violated": True, "detail": cex.get("detail", ""), "tag": cex.get("tag", "")}
                else:
                    rr = cex.get("replay") or replay_native(ob, cex, scratch)
                cex["replay"] = rr
                if not rr.get("violated"):
                    continue
                any_real = True
                tag = rr.get("tag") or cex.get("tag", "")
                f = match_finding(findings, prop, ob["name"], tag, rr.get("detail", ""))
                if f is not None:
                    known.append((f, ob, cex))
                else:
                    violations.append((ob, cex, rr))
            if any_real:
                r["verdict"] = "REFUTED"
            else:
                r["verdict"] = "INCONCLUSIVE"
                inconclusive.append((ob, "counterexample did not reproduce natively: %s" %
                                     json.dumps(r["cex"][0])[:400]))
    finally:
        shutil.rmtree(scratch, ignore_errors=True)

    # report
    seen = set()
    for f, ob, cex in known:
        if f["id"] in seen:
            continue
        seen.add(f["id"])
        print("KNOWN-FINDING: property=%s %s" % (prop, f["what"]))
    replay_paths = []
    os.makedirs(os.path.join(ROOT, "replays", prop), exist_ok=True)
    seen_v = set()
    for ob, cex, rr in violations:
        body = {"property": prop, "obligation": ob, "cex": cex, "replay": rr}
        h = hashlib.sha1(json.dumps(body, sort_keys=True, default=str).encode()).hexdigest()[:12]
        path = os.path.join(ROOT, "replays", prop, h + ".json")
        json.dump(body, open(path, "w"), indent=1, default=str)
        key = (ob["name"], rr.get("tag"))
        if key in seen_v:
            continue
        seen_v.add(key)
        replay_paths.append(path)
        print("VIOLATION property=%s replay=%s" % (prop, path))
        print("  obligation=%s tag=%s detail=%s args=%s" % (ob["name"], rr.get("tag"), rr.get("detail", "")[:300],
                                                          json.dumps(cex.get("args"))[:300]))
    for ob, why in inconclusive:
        print("INCONCLUSIVE obligation=%s reason=%s" % (ob["name"], str(why)[:500]))

    write_evidence(prop, tier, seed, results, meta, time.time() - t0, len(violations), twins_refuted,
                   [f["id"] for f, _, _ in known])
    if violations:
        return 1
    if inconclusive:
        return 3
    return 0


def write_evidence(prop, tier, seed, results, meta, wall, nviol, twins, known_ids):
    obs = [ob for ob, _ in results if ob.get("expect", "holds") == "holds"]
    paths = sum(int(r.get("paths", 0)) for _, r in results)
    conf = sum(int(r.get("confirmed", r.get("paths", 0))) for ob, r in results if ob.get("expect", "holds") == "holds")
    discharged = sum(1 for ob, r in results if ob.get("expect", "holds") == "holds" and r.get("verdict") == "HOLDS")
    queries = sum(int(r.get("queries", 0)) for _, r in results)
    solver_s = sum(float(r.get("solver_s", 0)) for _, r in results)
    samples = []
    for ob, r in results:
        for s in r.get("samples", [])[:1]:
            samples.append({"obligation": ob["name"], "path_model": s})
        if len(samples) >= 6:
            break
    if not samples:
        samples = [{"obligation": ob["name"], "params": {k: v for k, v in ob.get("params", {}).items()}}
                   for ob, _ in results[:3]]
    functions = sorted({f for _, r in results for f in r.get("functions", [])})
    exhaustive = all(r.get("verdict") in ("HOLDS", "TWIN-REFUTED") for _, r in results)
    cov = {
        "explanation": meta.get("explanation", ""),
        "obligations": len(obs),
        "discharged": discharged,
        "evaluations": max(paths, 1),
        "distinct_nontrivial": max(conf, 0),
        "rule": meta.get("rule", "one evaluation = one symbolic execution path (a distinct path condition over the "
                                 "symbolic inputs, decided by z3); non-trivial = the path reached the final "
                                 "assertion of its obligation and the solver decided it (counted by the engine)"),
        "paths": paths,
        "solver_queries": queries,
        "solver_time_s": round(solver_s, 2),
        "functions_encoded": functions or meta.get("functions", []),
        "bounds": meta.get("bounds", {}),
        "outside_bounds": meta.get("outside_bounds", ""),
        "stubs": meta.get("stubs", []),
        "vacuity_twins_refuted": twins,
        "known_findings_reported": sorted(set(known_ids)),
        "samples": samples,
        "exhaustive": bool(exhaustive),
        "per_obligation": [{"name": ob["name"], "engine": ob.get("engine", "sx"), "verdict": r.get("verdict"),
                            "paths": r.get("paths", 0), "queries": r.get("queries", 0),
                            "solver_s": r.get("solver_s", 0), "wall_s": round(float(r.get("wall_s", 0)), 1),
                            "reason": r.get("reason", "")[:200]} for ob, r in results],
    }
    if meta.get("level") == "model_checking":
        cov["states"] = max(conf, 1)
        cov["transitions"] = max(paths, 1)
        cov["traces_validated_against_impl"] = paths  # every path IS an execution of the real code
    ev = {"property_id": prop, "tier": tier, "seed": int(seed), "level": meta.get("level", "other"),
          "coverage": cov, "assumptions": meta.get("assumptions", []), "wall_s": round(wall, 1),
          "violations": nviol}
    # evidence describes /repo; a trial against a scratch worktree (VERIF_REPO, tools/try_mut_wt.sh) writes elsewhere
    evdir = os.environ.get("VERIF_EVIDENCE_DIR") if os.environ.get("VERIF_REPO") else None
    evdir = evdir or os.path.join(ROOT, "evidence")
    os.makedirs(evdir, exist_ok=True)
    json.dump(ev, open(os.path.join(evdir, prop + ".json"), "w"), indent=1)
