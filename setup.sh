#!/bin/bash
# builds the overlay venv (offline): /venv's packages + /repo + crosshair-tool from the wheelhouse
set -eu
HERE="$(cd "$(dirname "${BASH_SOURCE[0]}")" && pwd)"
cd "$HERE"
exec 9>"$HERE/.setup.lock"
flock 9
if [ -x .venv/bin/python ] && .venv/bin/python -c "import crosshair, z3, cryptography" 2>/dev/null; then exit 0; fi
rm -rf .venv
/venv/bin/python -m venv .venv
SP="$(.venv/bin/python -c 'import sysconfig; print(sysconfig.get_paths()["purelib"])')"
printf "import site; site.addsitedir('/venv/lib/python3.12/site-packages')\n/repo\n%s\n" "$HERE" > "$SP/overlay.pth"
PIP_NO_INDEX=1 .venv/bin/pip install -q --no-index --find-links /opt/veriftools/wheels crosshair-tool
.venv/bin/python -c "import crosshair, z3, cryptography"
